// unit `lww` -- the MAP-ENTRY side of integration: what makes a key of a map (or an XML attribute) a causal last-writer-wins
// register.  Serves C05 (KERNEL ONLY) -- mechanisms named by the property:
//   (m1) "new entry is created right of the current one (origin = current entry) -- Map::insert / Xml::insert_attribute"
//   (m2) "right-most wins, overridden left is deleted; non right-most arrivals are deleted -- integrate_item (parent_sub branch),
//        Item::needs_deletion"
//   (m3) "recursive deletion of nested content -- TransactionMut::delete"            [pointer code: NOT decided, see ASSUMPTION D]
// What IS per-call is stated as a contract of the real code for ALL states; what needs more than one call is stated as pure
// theorems over those contracts and over QUOTED clauses of unit yata (never re-proved).  Convergence in general is NOT claimed.
//
// THE VIEW.  A key k of a branch is a CHAIN of entry items linked by `.left` / `.right`; `parent.map[k]` points at one of them.
//     K = chain_of(map, k) = lefts(map[k]) = [leftmost(map[k]), .., map[k].left, map[k]]     (list order; empty: key never written)
//   -- unit mapread reads `map[k]` and its tombstone flag only; unit yata's `first_conflict` for an item without left neighbour is
//   K[0] = leftmost(map[k]), its list L = rights(K[0]).  The new item x is a separate value (`item`), `item_ptr` its handle.
//     p = pos_after(K, item.left) = 0 if item.left is None, i + 1 if item.left points at K[i]
//   is the position conflict resolution chose (yata P1: final(self).left == place(L, left0, c)): x goes between K[p-1] and K[p];
//   p == |K| means right-most.
//
// FUNCTIONS / REGIONS UNDER CONTRACT (real text, re-extracted on every run)
//  (A) Item::needs_deletion (whole)        r == (parent.item is a tombstone) || (parent_sub is Some && right is Some)        [exact]
//  (B) map_insert_pos            region of Map::insert (`let pos = { .. }`):   pos.left == map[key] (None for a key never written),
//      xml_insert_attribute_pos  region of Xml::insert_attribute (same block)  pos.right None, parent = this branch, index 0
//      create_item_origin        region of TransactionMut::create_item:  left == pos.left, right == pos.right,
//                                origin == last id of pos.left (None without left)        [requires item_ok: block invariant]
//      create_item_block         region of create_item (`let mut block = Item::new(..)?`): the constructor gets exactly (id, left,
//                                origin, right, right origin = id of right (None without), pos.parent, parent_sub, content)
//      Branch::remove (whole), Map::remove (whole), Xml::remove_attribute (whole): exactly ONE `delete`, of the CURRENT entry
//                                item map[key] (none for a key never written); no link written -- a removal creates no item;
//                                Branch::remove reports the value `get` returned
//      Item::last_id, Item::len, Item::id, Item::is_deleted, ID::new, ItemFlags::{check, is_deleted, is_linked}, MapRef::as_ref,
//      XmlElementRef::as_ref (whole, accessors)
//  (C) regions of TransactionMut::integrate_item (R18 statement regions; relations c1_post / c2_post / c3_post are ALSO their
//      ensures clauses, repeated clause by clause)
//      lww_reconnect   (C1) `if let Some(mut left) = item.left { .. } else { item.right = .. }` (BOTH branches):  only item.right
//                      changes; with a left neighbour l: item.right == l.right, ONE link write l.right := x; an ENTRY item without
//                      left neighbour: item.right == the LEFT-MOST item of its key's chain (None for a new key), nothing written;
//                      a LIST item without left: item.right == old parent.start, parent.start := x.  Nothing is deleted.
//      lww_walk_step   (C1, step) the BODY of the walk loop: goes on -- to `.left` -- iff there is a left neighbour
//      lww_publish     (C2) `if let Some(mut right) = item.right { right.left = .. } else if let Some(parent_sub) = .. { .. }`:
//                      NOT right-most: ONE link write right.left := x, map and deletion log untouched;  right-most ENTRY item:
//                      map == old.insert(key, x), deletion log gains exactly item.left (nothing without left); else nothing
//      lww_final_delete (C3) `if item.needs_deletion(parent) { self.delete(item_ptr); }`: log gains x iff needs_deletion
//  COMPOSED (pure, over the three relations; theorem_integrate_entry / theorem_integrate_entry_is_step) for an ENTRY item, under
//      H1 H4 H5 below:  0 <= p <= |K|;  x.left / x.right are K[p-1] / K[p];  the link writes are EXACTLY the doubly-linked-list
//      insertion (lemma_link_insert: every heap that held K holds K.insert(p, x) afterwards);  map[k] is the right-most item of
//      the new chain (x iff p == |K|, else unchanged);  the deletion log gained EXACTLY
//          step_log(K, x, p, pd) = [K.last] if p == |K| > 0   ++   [x] if p < |K| or the parent is deleted (pd);   nothing else.
//      theorem_local_write: (B) + quoted yata P4 => a local write arrives at p == |K|: it becomes map[k], exactly the value it
//      overrides is deleted.
//
// THE INVARIANT  chain_lww(s) := s.cur == last(s.chain)  &&  every item of s.chain except the last is in s.dead
//   over KeyState { chain: ids of K, cur: id of map[k], dead: tombstones }.  `step(s, x, p, pd)` is the composed contract read with
//   ASSUMPTION D about `TransactionMut::delete(y)` (pointer code, (m3), NOT decided): it sets the tombstone of y and -- if y holds
//   a nested type -- of the items of that type's subtree, which are not items of this chain; of nothing else; tombstones are never
//   cleared.  ONLY THE FIRST HALF IS USED (dead' = dead + the logged ids, on the items of the chain).  Also assumed between the
//   regions: integrate_item touches neither the chain's links, nor parent.map, nor the tombstone of the parent's own item
//   (`integrate_content` marks x itself for Deleted content: more tombstones, the invariant only needs a lower bound).
//     lemma_step_preserves_lww    chain_lww(s) ==> chain_lww(step(s, x, p, pd)); x is deleted by its own integration iff
//                                 p < |K| or pd; H1 carries over.   lemma_kill_preserves_lww: a removal (`kill`) too.
//     theorem_run                 for EVERY schedule of integrations / removals from a wf state: wf at the end, and the state is
//                                 the NORMAL FORM of the final chain: cur = its last item, dead = old + all non-last + removed
//     theorem_outcome_is_a_function_of_the_chain   two schedules with the same final chain and the same removals end in the same
//                                 state (same map[k], same tombstones, same value): per-key convergence REDUCES to convergence of
//                                 the list (C01; for two concurrent items unit yata L2 / L3)
//  (D1) theorem_d1_overwritten_is_buried + theorem_d1_never_resurfaces.  QUOTED yata "(P1) PLACEMENT 0 <= c <= e <= r <= |L| and
//       final(self).left == place(L, old(self).left, c)": a write whose origin is v = K[i] is placed at p = i + 1 + c > i; after
//       that ONE step v is not map[k] and is deleted (by C2 now, or it already was), and this stays so under every later
//       integration on the key and every removal: "a value overwritten by an operation that had seen it never resurfaces".
//  (D2) theorem_d2_concurrent_writes (+ theorem_d2_any_base).  QUOTED yata "(L2) same origin AND same right origin .. x.client <
//       y.client, ANY base list b: theorem_l2_same_origins_commute: in both delivery orders x ends up BEFORE y" (and L2+ "both
//       orders give the SAME LIST").  Two writes that both saw v as the current entry have, by (B), the same origin v and no
//       right origin.  With v still right-most here: both delivery orders end in chain K ++ [lo, hi], map[k] = hi (the HIGHER
//       client id), dead = old + {v, lo}; hi is deleted by neither integration.  Any base: same chain => same state, lo deleted.
//  (D3) theorem_d3_write_survives_removal.  A removal deletes the current entry v and creates no item (B); a concurrent write w
//       has origin v and is placed right of it (P1).  Removal first or write first: same state, map[k] = w, dead = old + {v}; w is
//       deleted neither by the removal nor by its own integration: "a write concurrent with a removal survives it".
//   test vector: example_overwrite_then_stale_arrival.   Public-API cross-check of D1-D3 on 3 replicas: units/lww/repro/main.rs.
//
// WHAT IS AND IS NOT IMPLIED.  Implied, per call: where a local write goes and what its origin is (m1); exactly which link writes,
//   map update and deletions ONE integration of an entry item performs, for every chain and position (m2); exactness of
//   needs_deletion.  Implied by the theorems: preservation of chain_lww, (D1)-(D3) as statements about steps / schedules ON ONE
//   REPLICA given the positions (which are yata's contract).  NOT implied: that two replicas build the same chain in general (C01,
//   only yata L2 / L3 for two items); that `delete` does what ASSUMPTION D says, incl. the subtree half ("overwriting or removing
//   a nested shared type removes its whole subtree"); that H1 / H4 / H5 hold in every reachable state (they are the linking
//   invariants of the block store; block splitting `ItemPtr::splice` also writes chain links and parent.map and is not here); the
//   statement at the top of integrate_item that copies `parent_sub` from a neighbour; `Update::integrate` (repair of left / right
//   from the origins, delete-set application = how a remote removal becomes `delete(v)`); UndoManager redo (`Item::redo`, the
//   third creator of entry items: it also chooses left = the right-most item, right = None); GC.
//   NOTE on "no other operation causally follows": the right-most item need not be the causally latest of a chain -- a write that
//   saw only v, from a HIGHER client id than a concurrent write w1, is placed right of w1 AND of w1's successors (yata: it
//   passes every item whose origin lies in the scanned range) and wins on every replica (repro: "stale", client 9).  It is
//   concurrent with all of them, so the property's wording is met.
//
// ------------------------------------------------------------------------------------------------------------------
// LOWERING (R15) AND STAND-IN TYPES (everything not listed is extracted verbatim from /repo)
//   ItemPtr / BranchPtr  `&'static Item` / `&'static Branch` as in units yata / mapread: READ-ONLY snapshots of the pointees at region
//                entry (A5: alive; the walk terminates by structural `decreases`).  An immutable value cannot be doubly linked:
//                `.left` and `.right` are independent chains, related by H4.  Identity of a pointee = its id (H1).
//   WRITES THROUGH ITEM POINTERS  `right.left = Some(item_ptr)` / `left.right = Some(item_ptr)` are spelled
//                `*txn.vx_left_of(right) = ..` / `*txn.vx_right_of(left) = ..` (SUB on the text left of `=`, so the stored value
//                stays real code): the place is a `&mut Option<ItemPtr>` handed out by the abstract recorder, which logs
//                Write::Left / Write::Right (target id, stored id).  Reads through pointers stay verbatim.
//   TxnApi       the transaction as an ABSTRACT RECORDER (bodiless trait methods: the contracts hold for EVERY implementation; the
//                logs are history variables): `self.delete(p)` / `txn.delete(p)` -> `txn.vx_delete(p)` appends p.id to
//                `deleted()`; `Item::inherit_links(item_ptr, left, self)` -> `txn.vx_inherit_links(..)` (feature `weak`: moves the
//                LINKED flag / `linked_by` entry; touches no link, tombstone or map entry).  `#[cfg(feature = "weak")]` is
//                DROPPED (SUB), i.e. the block is verified as if the feature were on, with `is_linked()` unconstrained: the
//                contract holds with and without the feature.
//   Item         sliced to id, len, left, right, parent_sub, info, content.  ItemFlags / ITEM_FLAG_* are real.  ItemContent is a
//                stand-in { last } with `get_last` (value reported by Branch::remove only).  `item: Box<Item>` / `&mut *item_ptr`
//                is `&mut Item` / `&Item`; `parent: BranchPtr` (a Copy pointer with DerefMut) is `&mut Branch` in C1 / C2.
//   Branch       sliced to start, map, item.   TypePtr, ItemPosition, MapRef, XmlElementRef, ID: real declarations.
//   NewItem      records the arguments of `Item::new` (SUB `Item::new` -> `NewItem::new`); `TypePtr::clone` written out.
//   Str / ClientID / Out / Attrs   opaque.  `&str` -> `&Str`, `Arc<str>` -> `Str`, `K: AsRef<str>` -> `K: AsRefStr` (abstract).
//   trait Map / trait Xml  default methods emitted as inherent methods of MapRef / XmlElementRef (as in mapread); `this: &'static`
//                in the two `pos` regions because the lowered BranchPtr is a `&'static Branch`.
//   OTHER SUBs   `.as_deref()` -> `` (identity on `Option<&Item>`), `BranchPtr::from(self.as_ref())` -> `self.as_ref()`,
//                INLINE `BranchPtr::from(inner).into()` -> `TypePtr::Branch(inner)` (body of `impl Into<TypePtr> for BranchPtr`
//                checked), `self.0.deref()` -> `self.0`, `break` -> `return (false, r)` (step region), generics for TxnApi.
// HEAP ASSUMPTIONS (hypotheses of the composition theorems only -- the region contracts hold for ALL states)
//   H1  the ids of the members of K are pairwise distinct, and x's id is new          [one block per (client, clock)]
//   H4  K[i].right is K[i + 1] (by id), the current entry item has no right neighbour [the chain is a well-linked list]
//   H5  item.left, if any, points AT a member of K                                    [yata P1, given the incoming left is one]
// TRUSTED (module vx_trusted): `axiom_str_key_model` (A4: Arc<str> is a lawful HashMap key), `Option::<&T>::copied` and
//   `Option::<T>::replace` (A2, std contracts; same as units yata / awareness).  vstd's specifications of HashMap::{get, insert},
//   Option::{as_ref, cloned, map, is_some, ?}.  No assume / admit.
//
// FINDINGS: none -- the pinned code satisfies every clause for every state; under H1 H4 H5 integration of an entry item preserves
//   chain_lww.  Looked at on purpose: an item with left Some and right None (its left IS the current entry under H4 + H5: it is
//   the one deleted); `parent.map.insert` is reached only with item.right None; `needs_deletion` runs after `right` is final.
//   OBSERVATIONS (no defect on reachable states): (1) if H5 fails -- an entry item whose left neighbour is a LIST item of the
//   same parent; the public API always takes left = map[key], so only a hand-crafted update can carry one -- then, by the
//   contracts of C1 / C2 themselves, the item is linked into the list and, arriving last, becomes map[key] and that LIST item is
//   deleted; (2) `Branch::remove` calls `delete` on the current entry item even when it already is a tombstone (a no-op there).
#![allow(unused_imports, unused_variables, unused_mut, dead_code, unused_parens, unused_braces, unused_assignments)]
use vstd::prelude::*;
use std::collections::HashMap;

verus! {

/*@rules R10
   SUB(from=Arc<str>;;to=Str)
   SUB(from=&str;;to=&Str)
   SUB(from=#[cfg(feature = "weak")];;to=)
   SUB(from=Item::inherit_links(item_ptr, left, self);;to=txn.vx_inherit_links(item_ptr, left))
   SUB(from=self.delete;;to=txn.vx_delete)
   SUB(from=txn.delete;;to=txn.vx_delete)
   SUB(from=right.left = ;;to=*txn.vx_left_of(right) = )
   SUB(from=left.right = ;;to=*txn.vx_right_of(left) = )
   SUB(from=.as_deref();;to=)
@*/

// ---------------------------------------------------------------------------------------------
// opaque stand-ins
// ---------------------------------------------------------------------------------------------
#[derive(PartialEq, Eq, Structural, Clone, Copy, Hash)]
pub struct Str(pub u64);

/// STAND-IN: the yjs client id, compared by value
#[derive(PartialEq, Eq, Structural, Clone, Copy, Hash)]
pub struct ClientID(pub u64);

/// STAND-IN: a value read out of an item (`crate::out::Out`), opaque
#[derive(PartialEq, Eq, Structural, Clone, Copy)]
pub struct Out(pub u64);

/// STAND-IN: text attributes of an insert position (`Box<Attrs>`), opaque; map entries never carry any
pub struct Attrs(pub u64);

#[derive(PartialEq, Eq, Structural, Clone, Copy, Hash)]
/*@extract yrs/src/block.rs | - | struct ID @*/

pub mod vx_trusted {
    use vstd::prelude::*;
    use vstd::std_specs::hash::*;
    use super::Str;

    /// A4: `Arc<str>` (here `Str`) is a lawful std HashMap key
    #[verifier::external_body] pub broadcast proof fn axiom_str_key_model()
        ensures
            #[trigger] obeys_key_model::<Str>(),
    {
    }

    /// A2: std `Option<&T>::copied` ("Maps an Option<&T> to an Option<T> by copying the contents of the option")
    pub assume_specification<'a, T: Copy>[ Option::<&'a T>::copied ](o: Option<&'a T>) -> (r: Option<T>)
        ensures
            r == (match o { Some(x) => Some(*x), None => None::<T> }),
    ;

    /// A2: std `Option::replace` ("Replaces the actual value in the option by the value given in parameter, returning the old value")
    pub assume_specification<T>[ Option::<T>::replace ](o: &mut Option<T>, value: T) -> (res: Option<T>)
        ensures
            res == *old(o),
            *final(o) == Some(value),
    ;
}
use vx_trusted::*;

broadcast use {axiom_str_key_model};

// ---------------------------------------------------------------------------------------------
// real declarations + the lowered item / branch
// ---------------------------------------------------------------------------------------------
/*@extract yrs/src/block.rs | - | const ITEM_FLAG_DELETED @*/

/*@extract yrs/src/block.rs | - | const ITEM_FLAG_LINKED @*/

#[derive(PartialEq, Eq, Structural, Clone, Copy)]
/*@extract yrs/src/block.rs | - | struct ItemFlags @*/

impl ItemFlags {
    pub closed spec fn bits(&self) -> u16 {
        self.0
    }

    /// the tombstone flag
    pub closed spec fn deleted(&self) -> bool {
        self.bits() & ITEM_FLAG_DELETED == ITEM_FLAG_DELETED
    }

    /// "linked by a weak link" (feature `weak`)
    pub closed spec fn linked(&self) -> bool {
        self.bits() & ITEM_FLAG_LINKED == ITEM_FLAG_LINKED
    }

    /*@extract yrs/src/block.rs | impl ItemFlags | fn check
    @ret r
    @sig
        ensures r == (self.bits() & value == value),
    @*/

    /*@extract yrs/src/block.rs | impl ItemFlags | fn is_deleted | label=flags_is_deleted
    @ret r
    @sig
        ensures r == self.deleted(),
    @*/

    /*@extract yrs/src/block.rs | impl ItemFlags | fn is_linked | label=flags_is_linked
    @ret r
    @sig
        ensures r == self.linked(),
    @*/
}

/// STAND-IN for `ItemContent`: only `get_last` is called (by `Branch::remove`, for the value it reports)
pub struct ItemContent {
    pub last: Option<Out>,
}

impl ItemContent {
    pub fn get_last(&self) -> (r: Option<Out>)
        ensures r == self.last,
    {
        self.last
    }
}

/// sliced + lowered, see the table at the top
pub struct Item {
    pub id: ID,
    pub len: u32,
    pub left: Option<ItemPtr>,
    pub right: Option<ItemPtr>,
    pub parent_sub: Option<Str>,
    pub info: ItemFlags,
    pub content: ItemContent,
}

pub type ItemPtr = &'static Item;

/// sliced + lowered, see the table at the top
pub struct Branch {
    pub start: Option<ItemPtr>,
    pub map: HashMap<Str, ItemPtr>,
    pub item: Option<ItemPtr>,
}

pub type BranchPtr = &'static Branch;

/*@extract yrs/src/types/mod.rs | - | enum TypePtr @*/

/*@extract yrs/src/block.rs | - | struct ItemPosition @*/

/*@extract yrs/src/types/map.rs | - | struct MapRef @*/

/*@extract yrs/src/types/xml.rs | - | struct XmlElementRef @*/

/// `AsRef<str>` as far as `Xml::remove_attribute` uses it: the key a value stands for
pub trait AsRefStr {
    spec fn str_of(&self) -> Str;

    fn as_ref(&self) -> (r: &Str)
        ensures
            *r == self.str_of(),
    ;
}

// ---------------------------------------------------------------------------------------------
// the transaction as far as the entry bookkeeping uses it: an ABSTRACT RECORDER
// ---------------------------------------------------------------------------------------------
/// a write THROUGH an item pointer to a link field of the pointee (the lowered pointees are immutable snapshots)
pub enum Write {
    /// `p.left = v`
    Left(ID, Option<ID>),
    /// `p.right = v`
    Right(ID, Option<ID>),
}

pub open spec fn opt_id(o: Option<ItemPtr>) -> Option<ID> {
    match o { Some(p) => Some(p.id), None => None }
}

/// bodiless: the contracts hold for EVERY implementation; `deleted()` / `writes()` are history variables
pub trait TxnApi {
    /// the ids `TransactionMut::delete` was called with, in call order
    spec fn deleted(&self) -> Seq<ID>;

    /// the link writes through item pointers, in program order
    spec fn writes(&self) -> Seq<Write>;

    /// real: `TransactionMut::delete(&mut self, item: ItemPtr) -> bool` (pointer code, NOT decided here)
    fn vx_delete(&mut self, item: ItemPtr) -> (r: bool)
        ensures
            final(self).deleted() == old(self).deleted().push(item.id),
            final(self).writes() == old(self).writes(),
    ;

    /// the place `p.left` (SUB `right.left = ..` -> `*txn.vx_left_of(right) = ..`): what is stored there is recorded
    fn vx_left_of(&mut self, p: ItemPtr) -> (r: &mut Option<ItemPtr>)
        ensures
            final(self).writes() == old(self).writes().push(Write::Left(p.id, opt_id(*final(r)))),
            final(self).deleted() == old(self).deleted(),
    ;

    /// the place `p.right` (SUB `left.right = ..` -> `*txn.vx_right_of(left) = ..`)
    fn vx_right_of(&mut self, p: ItemPtr) -> (r: &mut Option<ItemPtr>)
        ensures
            final(self).writes() == old(self).writes().push(Write::Right(p.id, opt_id(*final(r)))),
            final(self).deleted() == old(self).deleted(),
    ;

    /// real (feature `weak` only): `Item::inherit_links(curr, left, txn)` moves the LINKED flag and the `linked_by` entry from
    /// `left` to `curr`; it touches neither links, tombstones nor `parent.map`
    fn vx_inherit_links(&mut self, curr: ItemPtr, left: ItemPtr)
        ensures
            final(self).writes() == old(self).writes(),
            final(self).deleted() == old(self).deleted(),
    ;
}

/// ghost view of the recorder
pub struct TxnV {
    pub deleted: Seq<ID>,
    pub writes: Seq<Write>,
}

pub open spec fn tv<T: TxnApi>(t: &T) -> TxnV {
    TxnV { deleted: t.deleted(), writes: t.writes() }
}

/// ghost view of a branch
pub struct BranchV {
    pub start: Option<ItemPtr>,
    pub map: Map<Str, ItemPtr>,
    pub item: Option<ItemPtr>,
}

pub open spec fn bv(b: &Branch) -> BranchV {
    BranchV { start: b.start, map: b.map@, item: b.item }
}

// ---------------------------------------------------------------------------------------------
// SPEC: the view of a key's chain
// ---------------------------------------------------------------------------------------------
/// the item is not a tombstone
pub open spec fn live(p: &Item) -> bool {
    !p.info.deleted()
}

pub open spec fn lookup<V>(m: Map<Str, V>, k: Str) -> Option<V> {
    if m.contains_key(k) { Some(m[k]) } else { None }
}

pub open spec fn leftmost(p: ItemPtr) -> ItemPtr
    decreases p,
{
    match p.left {
        Some(l) => leftmost(l),
        None => p,
    }
}

pub open spec fn leftmost_opt(p: Option<ItemPtr>) -> Option<ItemPtr> {
    match p { Some(q) => Some(leftmost(q)), None => None }
}

/// the parent type's own item is a tombstone (the parent was deleted)
pub open spec fn parent_dead(b: BranchV) -> bool {
    match b.item { Some(i) => !live(i), None => false }
}

/// what `needs_deletion` decides
pub open spec fn needs_del(it: Item, b: BranchV) -> bool {
    parent_dead(b) || (it.parent_sub is Some && it.right is Some)
}

pub open spec fn item_ok(p: &Item) -> bool {
    p.len >= 1 && p.id.clock + p.len <= u32::MAX
}

pub open spec fn last_id_spec(p: &Item) -> ID {
    ID { client: p.id.client, clock: (p.id.clock + p.len - 1) as u32 }
}

pub open spec fn origin_of(left: Option<ItemPtr>) -> Option<ID> {
    match left { Some(l) => Some(last_id_spec(l)), None => None }
}

// ---- region contracts as relations (they are ALSO the ensures clauses of the lifted regions)

/// (C1) the reconnect statement
pub open spec fn c1_post(i0: Item, i1: Item, ptr: ItemPtr, b0: BranchV, b1: BranchV, t0: TxnV, t1: TxnV) -> bool {
    &&& i1 == (Item { right: i1.right, ..i0 })
    &&& t1.deleted == t0.deleted
    &&& match i0.left {
        // behind its left neighbour: takes over that one's right neighbour; the left neighbour's right link is the new item
        Some(l) => i1.right == l.right && t1.writes == t0.writes.push(Write::Right(l.id, Some(ptr.id))) && b1 == b0,
        None => t1.writes == t0.writes && match i0.parent_sub {
            // an entry item without left neighbour goes in front of the LEFT-MOST item of its key's chain
            Some(k) => i1.right == leftmost_opt(lookup(b0.map, k)) && b1 == b0,
            // a list item without left neighbour becomes the start of the list
            None => i1.right == b0.start && b1 == (BranchV { start: Some(ptr), ..b0 }),
        },
    }
}

/// (C2) the right neighbour's left link, or -- for a right-most entry item -- the map entry and the overridden value
pub open spec fn c2_post(it: Item, ptr: ItemPtr, b0: BranchV, b1: BranchV, t0: TxnV, t1: TxnV) -> bool {
    match it.right {
        Some(r) => b1 == b0 && t1.deleted == t0.deleted && t1.writes == t0.writes.push(Write::Left(r.id, Some(ptr.id))),
        None => t1.writes == t0.writes && match it.parent_sub {
            Some(k) => b1 == (BranchV { map: b0.map.insert(k, ptr), ..b0 })
                && t1.deleted == (match it.left { Some(l) => t0.deleted.push(l.id), None => t0.deleted }),
            None => b1 == b0 && t1.deleted == t0.deleted,
        },
    }
}

/// (C3) the final deletion test
pub open spec fn c3_post(it: Item, ptr: ItemPtr, b: BranchV, t0: TxnV, t1: TxnV) -> bool {
    &&& t1.writes == t0.writes
    &&& t1.deleted == (if needs_del(it, b) { t0.deleted.push(ptr.id) } else { t0.deleted })
}

pub proof fn lemma_leftmost(p: ItemPtr)
    ensures
        leftmost(p).left is None,
        p.left is None ==> leftmost(p) == p,
        p.left is Some ==> leftmost(p) == leftmost(p.left.unwrap()),
    decreases p,
{
    match p.left {
        Some(l) => { lemma_leftmost(l); },
        None => {},
    }
}

// ---------------------------------------------------------------------------------------------
// SPEC, part 2: the key chain K, the position p, and the composition of the three region contracts
// ---------------------------------------------------------------------------------------------
/// the chain that ENDS in `m`, in list order (left to right): [leftmost(m), .., m.left, m]
pub open spec fn lefts(m: ItemPtr) -> Seq<ItemPtr>
    decreases m,
{
    match m.left {
        Some(l) => lefts(l).push(m),
        None => seq![m],
    }
}

/// K: the entry items of `k` in list order -- the chain that ends in the CURRENT entry item `map[k]` (empty for a key never written)
pub open spec fn chain_of(m: Map<Str, ItemPtr>, k: Str) -> Seq<ItemPtr> {
    if m.contains_key(k) { lefts(m[k]) } else { Seq::empty() }
}

pub open spec fn ids_of(c: Seq<ItemPtr>) -> Seq<ID> {
    Seq::new(c.len(), |i: int| c[i].id)
}

pub proof fn lemma_lefts(m: ItemPtr)
    ensures ({
        let c = lefts(m);
        &&& c.len() >= 1
        &&& c.last() == m
        &&& c[0] == leftmost(m)
        &&& c[0].left is None
        &&& forall|i: int, j: int| 0 <= j && i == j + 1 && i < c.len() ==> (#[trigger] c[i]).left == Some(#[trigger] c[j])
    }),
    decreases m,
{
    match m.left {
        Some(l) => {
            lemma_lefts(l);
            let d = lefts(l);
            let c = lefts(m);
            assert(c == d.push(m));
            assert forall|i: int, j: int| 0 <= j && i == j + 1 && i < c.len() implies (#[trigger] c[i]).left == Some(#[trigger] c[j]) by {
                if i < d.len() {
                    assert(c[i] == d[i] && c[j] == d[j]);
                } else {
                    assert(c[i] == m && c[j] == d.last());
                }
            }
            assert(c[0] == d[0]);
        },
        None => {},
    }
}

/// H1: no two members share an id (a store holds one block per (client, clock))
pub open spec fn ids_unique(c: Seq<ItemPtr>) -> bool {
    forall|i: int, j: int| 0 <= i < j < c.len() ==> (#[trigger] c[i]).id != (#[trigger] c[j]).id
}

/// H4: the `.right` links of the chain are the mirror image of its `.left` links (by id: an immutable value cannot be doubly
/// linked), and the current entry item has no right neighbour
pub open spec fn rights_ok(c: Seq<ItemPtr>) -> bool {
    &&& forall|i: int, j: int| 0 <= i && j == i + 1 && j < c.len() ==> opt_id((#[trigger] c[i]).right) == Some((#[trigger] c[j]).id)
    &&& c.len() > 0 ==> c.last().right is None
}

/// H5: the left neighbour conflict resolution chose points AT a member of the chain (or there is none)
pub open spec fn left_in(c: Seq<ItemPtr>, left: Option<ItemPtr>) -> bool {
    left is Some ==> exists|i: int| 0 <= i < c.len() && #[trigger] c[i] == left.unwrap()
}

pub open spec fn idx_of(c: Seq<ItemPtr>, l: ItemPtr) -> int {
    choose|i: int| 0 <= i < c.len() && #[trigger] c[i] == l
}

/// p: the position conflict resolution chose -- the new item goes between K[p - 1] and K[p]
pub open spec fn pos_after(c: Seq<ItemPtr>, left: Option<ItemPtr>) -> int {
    match left {
        Some(l) => idx_of(c, l) + 1,
        None => 0,
    }
}

/// what is assumed of the state `integrate_item` runs the three regions in, for an ENTRY item
pub open spec fn entry_pre(c: Seq<ItemPtr>, it: Item) -> bool {
    &&& ids_unique(c)
    &&& rights_ok(c)
    &&& left_in(c, it.left)
    // the new item is new
    &&& forall|i: int| 0 <= i < c.len() ==> (#[trigger] c[i]).id != it.id
}

/// the two link writes of a doubly-linked-list insertion at position p
pub open spec fn link_writes(s: Seq<ID>, x: ID, p: int) -> Seq<Write> {
    (if p > 0 { seq![Write::Right(s[p - 1], Some(x))] } else { Seq::<Write>::empty() })
    + (if p < s.len() { seq![Write::Left(s[p], Some(x))] } else { Seq::<Write>::empty() })
}

/// THE DELETIONS of one integration of an entry item x at position p of the chain s (pd: the parent type is deleted):
/// the overridden value s.last() iff x arrives right-most; x itself iff it does not (or the parent is deleted); nothing else
pub open spec fn step_log(s: Seq<ID>, x: ID, p: int, pd: bool) -> Seq<ID> {
    (if p == s.len() && s.len() > 0 { seq![s.last()] } else { Seq::<ID>::empty() })
    + (if p < s.len() || pd { seq![x] } else { Seq::<ID>::empty() })
}

/// COMPOSITION of (C1) (C2) (C3) for an entry item: the regions run one after the other (between them integrate_item touches
/// neither the links of the chain, nor `parent.map`, nor -- ASSUMPTION -- the tombstone of the parent's own item)
pub proof fn theorem_integrate_entry(k: Str, ptr: ItemPtr, i0: Item, i1: Item, b0: BranchV, b1: BranchV, b2: BranchV,
    t0: TxnV, t1: TxnV, t2: TxnV, t3: TxnV)
    requires
        i0.parent_sub == Some(k),
        ptr.id == i0.id,
        entry_pre(chain_of(b0.map, k), i0),
        c1_post(i0, i1, ptr, b0, b1, t0, t1),
        c2_post(i1, ptr, b1, b2, t1, t2),
        c3_post(i1, ptr, b2, t2, t3),
    ensures ({
        let c = chain_of(b0.map, k);
        let s = ids_of(c);
        let p = pos_after(c, i0.left);
        let x = i0.id;
        &&& 0 <= p <= c.len()
        // the item's own links: between K[p - 1] and K[p]
        &&& i1.left == i0.left
        &&& opt_id(i1.left) == (if p > 0 { Some(s[p - 1]) } else { None })
        &&& opt_id(i1.right) == (if p < c.len() { Some(s[p]) } else { None })
        // the neighbours' links: exactly the insertion surgery (see lemma_link_insert: the chain is K with x inserted at p)
        &&& t3.writes == t0.writes + link_writes(s, x, p)
        // `parent.map[k]` is the right-most item of the new chain: the new item iff p == |K|, else unchanged
        &&& b2.map == (if p == c.len() { b0.map.insert(k, ptr) } else { b0.map })
        &&& opt_id(lookup(b2.map, k)) == (if p == c.len() { Some(x) } else { Some(s.last()) })
        &&& b2.start == b0.start && b2.item == b0.item
        // the deletion log gained exactly ...
        &&& t3.deleted == t0.deleted + step_log(s, x, p, parent_dead(b0))
    }),
{
    let c = chain_of(b0.map, k);
    let s = ids_of(c);
    let p = pos_after(c, i0.left);
    let x = i0.id;
    if b0.map.contains_key(k) {
        lemma_lefts(b0.map[k]);
    }
    match i0.left {
        None => {
            if b0.map.contains_key(k) {
                assert(i1.right == Some(c[0]));
                assert(s[0] == c[0].id);
                assert(t3.writes =~= t0.writes + link_writes(s, x, p));
                assert(t3.deleted =~= t0.deleted + step_log(s, x, p, parent_dead(b0)));
                assert(s.last() == c.last().id);
            } else {
                assert(t3.writes =~= t0.writes + link_writes(s, x, p));
                assert(t3.deleted =~= t0.deleted + step_log(s, x, p, parent_dead(b0)));
                assert(b2.map.contains_key(k));
            }
        },
        Some(l) => {
            let i = idx_of(c, l);
            assert(0 <= i < c.len() && c[i] == l);
            assert(s[i] == l.id);
            if i + 1 < c.len() {
                assert(opt_id(c[i].right) == Some(c[i + 1].id));
                assert(s[i + 1] == c[i + 1].id);
                assert(i1.right is Some);
                assert(t3.writes =~= t0.writes + link_writes(s, x, p));
                assert(t3.deleted =~= t0.deleted + step_log(s, x, p, parent_dead(b0)));
                assert(s.last() == c.last().id);
            } else {
                assert(c[i] == c.last());
                assert(i1.right is None);
                assert(s.last() == l.id);
                assert(t3.writes =~= t0.writes + link_writes(s, x, p));
                assert(t3.deleted =~= t0.deleted + step_log(s, x, p, parent_dead(b0)));
                assert(b2.map.contains_key(k));
            }
        },
    }
}

/// A LOCAL WRITE, composed: (B) `Map::insert` / `Xml::insert_attribute` choose left = `map[k]` (the current entry item), right = None;
/// `create_item` passes them on with origin = last id of `map[k]`, right origin None; QUOTED from unit yata: "(P4) r == !glued(self),
/// glued := (left is Some(l) && l.right and self.right are the same item (both None, or equal ids)) || ..": for left = `map[k]`
/// (H4: no right neighbour) and right = None the item is glued, `resolve_conflict` is NOT called and `item.left` stays `map[k]`.
/// Then the three regions put the item at p = |K|: it becomes `map[k]`, and the deletion log gains exactly the value it
/// overrides (if any) -- and the item itself only if the parent type is deleted.  For a key never written: left None, nothing
/// is deleted.
pub proof fn theorem_local_write(k: Str, pos: ItemPosition, created: (Option<ItemPtr>, Option<ItemPtr>, Option<ID>), ptr: ItemPtr, i0: Item, i1: Item,
    b0: BranchV, b1: BranchV, b2: BranchV, t0: TxnV, t1: TxnV, t2: TxnV, t3: TxnV)
    requires
        // contract of map_insert_pos / xml_insert_attribute_pos
        pos.left == lookup(b0.map, k),
        pos.right is None,
        // contract of create_item_origin
        created.0 == pos.left && created.1 == pos.right && created.2 == origin_of(pos.left),
        // the item integrate_item works on (create_item_block: Item::new gets exactly these; (P4): not moved)
        i0.left == created.0,
        i0.parent_sub == Some(k),
        ptr.id == i0.id,
        entry_pre(chain_of(b0.map, k), i0),
        c1_post(i0, i1, ptr, b0, b1, t0, t1),
        c2_post(i1, ptr, b1, b2, t1, t2),
        c3_post(i1, ptr, b2, t2, t3),
    ensures ({
        let c = chain_of(b0.map, k);
        // the origin is the current entry item (its last id), never anything else
        &&& created.2 == (if c.len() > 0 { Some(last_id_spec(c.last())) } else { None })
        &&& pos_after(c, i0.left) == c.len()
        &&& i1.right is None
        &&& b2.map == b0.map.insert(k, ptr)
        &&& t3.deleted == t0.deleted + (if c.len() > 0 { seq![c.last().id] } else { Seq::<ID>::empty() })
            + (if parent_dead(b0) { seq![i0.id] } else { Seq::<ID>::empty() })
    }),
{
    let c = chain_of(b0.map, k);
    let s = ids_of(c);
    theorem_integrate_entry(k, ptr, i0, i1, b0, b1, b2, t0, t1, t2, t3);
    if b0.map.contains_key(k) {
        lemma_lefts(b0.map[k]);
        let i = idx_of(c, c.last());
        assert(c[c.len() - 1] == c.last());
        assert(0 <= i < c.len() && c[i] == c.last());
        if i < c.len() - 1 { assert(c[i].id != c[c.len() - 1].id); }
        assert(s.last() == c.last().id);
    }
    assert(step_log(s, i0.id, c.len() as int, parent_dead(b0)) =~=
        (if c.len() > 0 { seq![c.last().id] } else { Seq::<ID>::empty() }) + (if parent_dead(b0) { seq![i0.id] } else { Seq::<ID>::empty() }));
}

// ---- the links as an abstract heap: "the chain is K with the item inserted at p"
pub struct Cell {
    pub left: Option<ID>,
    pub right: Option<ID>,
}

pub open spec fn apply_write(h: Map<ID, Cell>, w: Write) -> Map<ID, Cell> {
    match w {
        Write::Left(q, v) => h.insert(q, Cell { left: v, ..h[q] }),
        Write::Right(q, v) => h.insert(q, Cell { right: v, ..h[q] }),
    }
}

pub open spec fn apply_writes(h: Map<ID, Cell>, ws: Seq<Write>) -> Map<ID, Cell>
    decreases ws.len(),
{
    if ws.len() == 0 { h } else { apply_write(apply_writes(h, ws.drop_last()), ws.last()) }
}

/// the cell of the i-th member of a doubly linked list
pub open spec fn cell_at(s: Seq<ID>, i: int) -> Cell {
    Cell { left: if i > 0 { Some(s[i - 1]) } else { None }, right: if i + 1 < s.len() { Some(s[i + 1]) } else { None } }
}

/// the heap holds the doubly linked list s
pub open spec fn repr(h: Map<ID, Cell>, s: Seq<ID>) -> bool {
    forall|i: int| 0 <= i < s.len() ==> h.contains_key(s[i]) && h[s[i]] == #[trigger] cell_at(s, i)
}

pub open spec fn uniq(s: Seq<ID>) -> bool {
    forall|i: int, j: int| 0 <= i < j < s.len() ==> s[i] != s[j]
}

/// the links the snapshot of the first n chain members holds
pub open spec fn links_upto(c: Seq<ItemPtr>, n: int) -> Map<ID, Cell>
    decreases n,
{
    if n <= 0 { Map::empty() } else { links_upto(c, n - 1).insert(c[n - 1].id, Cell { left: opt_id(c[n - 1].left), right: opt_id(c[n - 1].right) }) }
}

pub open spec fn links_of(c: Seq<ItemPtr>) -> Map<ID, Cell> {
    links_upto(c, c.len() as int)
}

pub proof fn lemma_links_upto(c: Seq<ItemPtr>, n: int)
    requires
        ids_unique(c),
        0 <= n <= c.len(),
    ensures
        forall|i: int| 0 <= i < n ==> links_upto(c, n).contains_key((#[trigger] c[i]).id)
            && links_upto(c, n)[c[i].id] == (Cell { left: opt_id(c[i].left), right: opt_id(c[i].right) }),
    decreases n,
{
    if n > 0 {
        lemma_links_upto(c, n - 1);
        assert forall|i: int| 0 <= i < n implies links_upto(c, n).contains_key((#[trigger] c[i]).id)
            && links_upto(c, n)[c[i].id] == (Cell { left: opt_id(c[i].left), right: opt_id(c[i].right) }) by {
            if i < n - 1 { assert(c[i].id != c[n - 1].id); }
        }
    }
}

/// under H1 + H4 the snapshot of a key's chain IS a doubly linked list
pub proof fn lemma_snapshot_repr(m: ItemPtr)
    requires
        ids_unique(lefts(m)),
        rights_ok(lefts(m)),
    ensures
        repr(links_of(lefts(m)), ids_of(lefts(m))),
        uniq(ids_of(lefts(m))),
{
    let c = lefts(m);
    let s = ids_of(c);
    let h = links_of(c);
    lemma_lefts(m);
    lemma_links_upto(c, c.len() as int);
    assert forall|i: int| 0 <= i < s.len() implies h.contains_key(s[i]) && h[s[i]] == #[trigger] cell_at(s, i) by {
        assert(c[i].id == s[i]);
        if i > 0 {
            assert(c[i].left == Some(c[i - 1]));
            assert(s[i - 1] == c[i - 1].id);
        }
        if i + 1 < c.len() {
            assert(opt_id(c[i].right) == Some(c[i + 1].id));
            assert(s[i + 1] == c[i + 1].id);
        } else {
            assert(c[i] == c.last());
        }
    }
    assert forall|i: int, j: int| 0 <= i < j < s.len() implies s[i] != s[j] by {
        assert(c[i].id != c[j].id);
    }
}

/// DOUBLY-LINKED-LIST INSERTION: a heap that holds the list s, extended by the cell of the new item x (left = s[p - 1], right =
/// s[p]) and updated by the two link writes, holds s with x inserted at position p
pub proof fn lemma_link_insert(h: Map<ID, Cell>, s: Seq<ID>, x: ID, p: int)
    requires
        repr(h, s),
        uniq(s),
        !s.contains(x),
        0 <= p <= s.len(),
    ensures ({
        let cx = Cell { left: if p > 0 { Some(s[p - 1]) } else { None }, right: if p < s.len() { Some(s[p]) } else { None } };
        &&& repr(apply_writes(h.insert(x, cx), link_writes(s, x, p)), s.insert(p, x))
        &&& uniq(s.insert(p, x))
    }),
{
    let cx = Cell { left: if p > 0 { Some(s[p - 1]) } else { None }, right: if p < s.len() { Some(s[p]) } else { None } };
    let h0 = h.insert(x, cx);
    let ws = link_writes(s, x, p);
    let t = s.insert(p, x);
    // the writes, one by one
    let w1 = Write::Right(s[p - 1], Some(x));
    let w2 = Write::Left(s[p], Some(x));
    let h1 = if p > 0 { apply_write(h0, w1) } else { h0 };
    let h2 = if p < s.len() { apply_write(h1, w2) } else { h1 };
    assert(apply_writes(h0, Seq::<Write>::empty()) == h0);
    if p > 0 && p < s.len() {
        assert(ws =~= seq![w1, w2]);
        assert(ws.drop_last() =~= seq![w1]);
        assert(seq![w1].drop_last() =~= Seq::<Write>::empty());
        assert(apply_writes(h0, seq![w1]) == h1);
        assert(apply_writes(h0, ws) == h2);
    } else if p > 0 {
        assert(ws =~= seq![w1]);
        assert(ws.drop_last() =~= Seq::<Write>::empty());
        assert(apply_writes(h0, ws) == h2);
    } else if p < s.len() {
        assert(ws =~= seq![w2]);
        assert(ws.drop_last() =~= Seq::<Write>::empty());
        assert(apply_writes(h0, ws) == h2);
    } else {
        assert(ws =~= Seq::<Write>::empty());
    }
    assert forall|i: int| 0 <= i < s.len() implies s[i] != x by {
        if s[i] == x { assert(s.contains(x)); }
    }
    assert forall|i: int| 0 <= i < t.len() implies h2.contains_key(t[i]) && h2[t[i]] == #[trigger] cell_at(t, i) by {
        if i < p {
            assert(t[i] == s[i]);
            assert(h[s[i]] == cell_at(s, i));
            if i + 1 < p { assert(s[i] != s[p - 1]); }
            if p < s.len() { assert(s[i] != s[p]); }
        } else if i == p {
            assert(t[i] == x);
        } else {
            assert(t[i] == s[i - 1]);
            assert(h[s[i - 1]] == cell_at(s, i - 1));
            if p > 0 { assert(s[p - 1] != s[i - 1]); }
            if i - 1 > p { assert(s[p] != s[i - 1]); }
        }
    }
    assert forall|i: int, j: int| 0 <= i < j < t.len() implies t[i] != t[j] by {
        let a = if i < p { i } else { i - 1 };
        let b = if j < p { j } else { j - 1 };
        if i != p && j != p { assert(s[a] != s[b]); }
    }
}

// ---------------------------------------------------------------------------------------------
// SPEC, part 3: the key as a register -- the invariant chain_lww, its preservation, and what follows for C05
// ---------------------------------------------------------------------------------------------
/// the abstract state of ONE key of ONE map on ONE replica
pub struct KeyState {
    /// K: the ids of the key's entry items in list order
    pub chain: Seq<ID>,
    /// `parent.map[key]`
    pub cur: Option<ID>,
    /// the tombstoned items
    pub dead: ISet<ID>,
}

pub open spec fn last_opt(c: Seq<ID>) -> Option<ID> {
    if c.len() > 0 { Some(c.last()) } else { None }
}

pub open spec fn set_of(l: Seq<ID>) -> ISet<ID> {
    ISet::new(|y: ID| l.contains(y))
}

/// THE INVARIANT: `map[key]` is the right-most item of the chain, and every item of the chain except the right-most is deleted
pub open spec fn chain_lww(s: KeyState) -> bool {
    &&& s.cur == last_opt(s.chain)
    &&& forall|i: int| 0 <= i < s.chain.len() - 1 ==> s.dead.contains(#[trigger] s.chain[i])
}

/// chain_lww + H1
pub open spec fn wf(s: KeyState) -> bool {
    chain_lww(s) && uniq(s.chain)
}

/// what a reader sees (unit mapread: `get` / `contains_key` look at `map[key]` and its tombstone flag only)
pub open spec fn value(s: KeyState) -> Option<ID> {
    match s.cur { Some(v) => if s.dead.contains(v) { None } else { Some(v) }, None => None }
}

/// ONE INTEGRATION of the entry item x at position p (theorem_integrate_entry), read with
/// ASSUMPTION D about `TransactionMut::delete(y)` (pointer code, not decided): it sets the tombstone of y -- and, if y holds a
/// nested type, of the items of that type's subtree, which are NOT items of this chain (only this first half is used) -- and of
/// nothing else; tombstones are never cleared
pub open spec fn step(s: KeyState, x: ID, p: int, pd: bool) -> KeyState {
    KeyState {
        chain: s.chain.insert(p, x),
        cur: if p == s.chain.len() { Some(x) } else { s.cur },
        dead: s.dead.union(set_of(step_log(s.chain, x, p, pd))),
    }
}

/// a REMOVAL reaching the replica: `delete(v)` and nothing else -- locally `Branch::remove` with v = the current entry item (B),
/// remotely the delete-set range of v (`apply_delete`, NOT in this unit)
pub open spec fn kill(s: KeyState, v: ID) -> KeyState {
    KeyState { dead: s.dead.insert(v), ..s }
}

/// every item of the chain but the right-most
pub open spec fn nonlast(c: Seq<ID>) -> ISet<ID> {
    ISet::new(|y: ID| exists|i: int| 0 <= i < c.len() - 1 && c[i] == y)
}

/// NORMAL FORM: the state is a function of the chain and of a set of extra tombstones
pub open spec fn nf(c: Seq<ID>, base: ISet<ID>) -> KeyState {
    KeyState { chain: c, cur: last_opt(c), dead: base.union(nonlast(c)) }
}

pub open spec fn born_dead(x: ID, pd: bool) -> ISet<ID> {
    if pd { ISet::<ID>::empty().insert(x) } else { ISet::<ID>::empty() }
}

pub proof fn lemma_nonlast_insert(c: Seq<ID>, p: int, x: ID)
    requires 0 <= p <= c.len(),
    ensures
        p < c.len() ==> nonlast(c.insert(p, x)) =~= nonlast(c).insert(x),
        p == c.len() && c.len() > 0 ==> nonlast(c.insert(p, x)) =~= nonlast(c).insert(c.last()),
        p == c.len() && c.len() == 0 ==> nonlast(c.insert(p, x)) =~= nonlast(c),
{
    let d = c.insert(p, x);
    let n = c.len() as int;
    assert forall|y: ID| nonlast(d).contains(y) implies (if p < n { nonlast(c).insert(x).contains(y) } else if n > 0 { nonlast(c).insert(c.last()).contains(y) } else { nonlast(c).contains(y) }) by {
        let i = choose|i: int| 0 <= i < d.len() - 1 && d[i] == y;
        if i < p {
            assert(d[i] == c[i]);
            if p < n { assert(0 <= i < c.len() - 1 && c[i] == y); } else if i < n - 1 { assert(0 <= i < c.len() - 1 && c[i] == y); }
        } else if i > p {
            assert(d[i] == c[i - 1]);
            assert(0 <= i - 1 < c.len() - 1 && c[i - 1] == y);
        }
    }
    if p < n {
        assert forall|y: ID| nonlast(c).insert(x).contains(y) implies nonlast(d).contains(y) by {
            if y == x {
                assert(0 <= p < d.len() - 1 && d[p] == y);
            } else {
                let i = choose|i: int| 0 <= i < c.len() - 1 && c[i] == y;
                if i < p { assert(0 <= i < d.len() - 1 && d[i] == y); } else { assert(d[i + 1] == c[i]); assert(0 <= i + 1 < d.len() - 1 && d[i + 1] == y); }
            }
        }
    } else if n > 0 {
        assert forall|y: ID| nonlast(c).insert(c.last()).contains(y) implies nonlast(d).contains(y) by {
            if y == c.last() {
                assert(0 <= n - 1 < d.len() - 1 && d[n - 1] == y);
            } else {
                let i = choose|i: int| 0 <= i < c.len() - 1 && c[i] == y;
                assert(0 <= i < d.len() - 1 && d[i] == y);
            }
        }
    }
}

pub proof fn lemma_set_of_log(c: Seq<ID>, x: ID, p: int, pd: bool)
    requires 0 <= p <= c.len(),
    ensures
        set_of(step_log(c, x, p, pd)) =~= (if p == c.len() && c.len() > 0 { ISet::<ID>::empty().insert(c.last()) } else { ISet::<ID>::empty() })
            .union(if p < c.len() || pd { ISet::<ID>::empty().insert(x) } else { ISet::<ID>::empty() }),
{
    let l = step_log(c, x, p, pd);
    let a = if p == c.len() && c.len() > 0 { seq![c.last()] } else { Seq::<ID>::empty() };
    let b = if p < c.len() || pd { seq![x] } else { Seq::<ID>::empty() };
    assert(l == a + b);
    let r = (if p == c.len() && c.len() > 0 { ISet::<ID>::empty().insert(c.last()) } else { ISet::<ID>::empty() })
            .union(if p < c.len() || pd { ISet::<ID>::empty().insert(x) } else { ISet::<ID>::empty() });
    assert forall|y: ID| set_of(l).contains(y) <==> r.contains(y) by {
        if l.contains(y) {
            let i = choose|i: int| 0 <= i < l.len() && l[i] == y;
            if i < a.len() { assert(l[i] == a[i]); } else { assert(l[i] == b[i - a.len()]); }
        }
        if r.contains(y) {
            if a.len() > 0 && y == c.last() { assert(l[0] == y); }
            else { assert(l[a.len() as int] == b[0]); assert(l[a.len() as int] == y); }
        }
    }
}

/// THE INVARIANT IS PRESERVED by the integration of an entry item, and the new state is in normal form
pub proof fn lemma_step_preserves_lww(s: KeyState, x: ID, p: int, pd: bool)
    requires
        chain_lww(s),
        0 <= p <= s.chain.len(),
    ensures
        chain_lww(step(s, x, p, pd)),
        step(s, x, p, pd).dead =~= s.dead.union(nonlast(s.chain.insert(p, x))).union(born_dead(x, pd)),
        // the new item is deleted BY ITS OWN INTEGRATION iff it does not arrive right-most (or the parent is deleted)
        step_log(s.chain, x, p, pd).contains(x) <== (p < s.chain.len() || pd),
        !(p < s.chain.len() || pd) && (s.chain.len() > 0 ==> s.chain.last() != x) ==> !step_log(s.chain, x, p, pd).contains(x),
        uniq(s.chain) && !s.chain.contains(x) ==> uniq(s.chain.insert(p, x)),
{
    let t = step(s, x, p, pd);
    let c = s.chain;
    let d = t.chain;
    let n = c.len() as int;
    lemma_nonlast_insert(c, p, x);
    lemma_set_of_log(c, x, p, pd);
    assert forall|y: ID| nonlast(c).contains(y) implies s.dead.contains(y) by {
        let i = choose|i: int| 0 <= i < c.len() - 1 && c[i] == y;
        assert(s.dead.contains(c[i]));
    }
    assert forall|i: int| 0 <= i < d.len() - 1 implies t.dead.contains(#[trigger] d[i]) by {
        assert(nonlast(d).contains(d[i]));
    }
    if p < n || pd {
        let l = step_log(c, x, p, pd);
        assert(l[l.len() - 1] == x);
    }
    if uniq(c) && !c.contains(x) {
        assert forall|i: int, j: int| 0 <= i < j < d.len() implies d[i] != d[j] by {
            let a = if i < p { i } else { i - 1 };
            let b = if j < p { j } else { j - 1 };
            if i != p && j != p { assert(c[a] != c[b]); }
            if i == p { assert(c.contains(c[b])); }
            if j == p { assert(c.contains(c[a])); }
        }
    }
}

/// ... and by a removal
pub proof fn lemma_kill_preserves_lww(s: KeyState, v: ID)
    requires chain_lww(s),
    ensures chain_lww(kill(s, v)), kill(s, v).chain == s.chain, kill(s, v).cur == s.cur,
{
}

/// a state that satisfies the invariant is in normal form
pub proof fn lemma_lww_is_nf(s: KeyState)
    requires chain_lww(s),
    ensures s.cur == nf(s.chain, s.dead).cur, s.dead =~= nf(s.chain, s.dead).dead,
{
    assert forall|y: ID| nonlast(s.chain).contains(y) implies s.dead.contains(y) by {
        let i = choose|i: int| 0 <= i < s.chain.len() - 1 && s.chain[i] == y;
        assert(s.dead.contains(s.chain[i]));
    }
}

/// the abstract state of key k in a branch snapshot, given the set of tombstones
pub open spec fn abs_key(b: BranchV, k: Str, dead: ISet<ID>) -> KeyState {
    KeyState { chain: ids_of(chain_of(b.map, k)), cur: opt_id(lookup(b.map, k)), dead }
}

/// THE THREE REGIONS, COMPOSED, ARE ONE `step`: for an entry item of key k, with K = the chain before the call and p the position
/// conflict resolution chose,
///   * the links after the call hold K with the item inserted at p (for EVERY heap h that held K before: the recorded writes
///     and the item's own two links are the doubly-linked-list insertion),
///   * `parent.map[k]` is the right-most item of the new chain,
///   * the deletion log gained exactly step_log(K, x, p, parent deleted),
///   i.e. (ASSUMPTION D) the abstract state after the call is step(state before, x, p, parent deleted); by
///   lemma_step_preserves_lww the invariant chain_lww is PRESERVED by the integration of an entry item.
pub proof fn theorem_integrate_entry_is_step(k: Str, ptr: ItemPtr, i0: Item, i1: Item, b0: BranchV, b1: BranchV, b2: BranchV,
    t0: TxnV, t1: TxnV, t2: TxnV, t3: TxnV, dead: ISet<ID>, h: Map<ID, Cell>)
    requires
        i0.parent_sub == Some(k),
        ptr.id == i0.id,
        entry_pre(chain_of(b0.map, k), i0),
        c1_post(i0, i1, ptr, b0, b1, t0, t1),
        c2_post(i1, ptr, b1, b2, t1, t2),
        c3_post(i1, ptr, b2, t2, t3),
        repr(h, ids_of(chain_of(b0.map, k))),
    ensures ({
        let c = chain_of(b0.map, k);
        let p = pos_after(c, i0.left);
        let x = i0.id;
        let s0 = abs_key(b0, k, dead);
        let s1 = step(s0, x, p, parent_dead(b0));
        let new_writes = t3.writes.skip(t0.writes.len() as int);
        let new_deleted = t3.deleted.skip(t0.deleted.len() as int);
        &&& 0 <= p <= c.len()
        // by construction of the view `map[k]` IS the right-most item of K; H1 carries over to the ids
        &&& s0.cur == last_opt(s0.chain) && uniq(s0.chain) && !s0.chain.contains(x)
        // the chain is K with the item inserted at p
        &&& repr(apply_writes(h.insert(x, Cell { left: opt_id(i1.left), right: opt_id(i1.right) }), new_writes), s1.chain)
        &&& uniq(s1.chain)
        // the map entry
        &&& opt_id(lookup(b2.map, k)) == s1.cur
        &&& s1.cur == last_opt(s1.chain)
        // the deletions
        &&& new_deleted == step_log(s0.chain, x, p, parent_dead(b0))
        &&& s1.dead == dead.union(set_of(new_deleted))
        // the invariant
        &&& chain_lww(s0) ==> chain_lww(s1)
    }),
{
    let c = chain_of(b0.map, k);
    let s = ids_of(c);
    let p = pos_after(c, i0.left);
    let x = i0.id;
    let s0 = abs_key(b0, k, dead);
    theorem_integrate_entry(k, ptr, i0, i1, b0, b1, b2, t0, t1, t2, t3);
    assert forall|i: int, j: int| 0 <= i < j < s.len() implies s[i] != s[j] by {
        assert(c[i].id != c[j].id);
    }
    assert(!s.contains(x)) by {
        if s.contains(x) {
            let i = choose|i: int| 0 <= i < s.len() && s[i] == x;
            assert(c[i].id != i0.id);
        }
    }
    if b0.map.contains_key(k) {
        lemma_lefts(b0.map[k]);
        assert(s.last() == c.last().id);
    }
    lemma_link_insert(h, s, x, p);
    assert(t3.writes.skip(t0.writes.len() as int) =~= link_writes(s, x, p));
    assert(t3.deleted.skip(t0.deleted.len() as int) =~= step_log(s, x, p, parent_dead(b0)));
    if chain_lww(s0) {
        lemma_step_preserves_lww(s0, x, p, parent_dead(b0));
    }
}

// ---- schedules: any sequence of integrations of entry items of the key and of removals
pub enum Op {
    /// integration of the entry item x, placed at position p by conflict resolution; pd: the parent type is deleted at that time
    Put { x: ID, p: int, pd: bool },
    /// `delete(v)`
    Kill { v: ID },
}

pub open spec fn apply(s: KeyState, op: Op) -> KeyState {
    match op {
        Op::Put { x, p, pd } => step(s, x, p, pd),
        Op::Kill { v } => kill(s, v),
    }
}

pub open spec fn run(s: KeyState, ops: Seq<Op>) -> KeyState
    decreases ops.len(),
{
    if ops.len() == 0 { s } else { apply(run(s, ops.drop_last()), ops.last()) }
}

pub open spec fn op_ok(s: KeyState, op: Op) -> bool {
    match op {
        Op::Put { x, p, pd } => 0 <= p <= s.chain.len() && !s.chain.contains(x),
        Op::Kill { v } => true,
    }
}

pub open spec fn ops_ok(s: KeyState, ops: Seq<Op>) -> bool
    decreases ops.len(),
{
    ops.len() == 0 || (ops_ok(s, ops.drop_last()) && op_ok(run(s, ops.drop_last()), ops.last()))
}

/// the tombstones a schedule sets regardless of positions: the removed items, and the items that arrive under a deleted parent
pub open spec fn extra(ops: Seq<Op>) -> ISet<ID>
    decreases ops.len(),
{
    if ops.len() == 0 {
        ISet::<ID>::empty()
    } else {
        extra(ops.drop_last()).union(match ops.last() {
            Op::Put { x, p, pd } => born_dead(x, pd),
            Op::Kill { v } => ISet::<ID>::empty().insert(v),
        })
    }
}

/// FOR EVERY SCHEDULE the invariant holds at the end, and the state is the normal form of the final chain: `map[key]` is its
/// right-most item; the tombstones are the old ones, every item that is not right-most, and `extra`
pub proof fn theorem_run(s: KeyState, ops: Seq<Op>)
    requires
        wf(s),
        ops_ok(s, ops),
    ensures
        wf(run(s, ops)),
        run(s, ops).cur == last_opt(run(s, ops).chain),
        run(s, ops).dead =~= s.dead.union(nonlast(run(s, ops).chain)).union(extra(ops)),
    decreases ops.len(),
{
    if ops.len() == 0 {
        lemma_lww_is_nf(s);
    } else {
        let r = run(s, ops.drop_last());
        theorem_run(s, ops.drop_last());
        match ops.last() {
            Op::Put { x, p, pd } => {
                lemma_step_preserves_lww(r, x, p, pd);
                lemma_nonlast_insert(r.chain, p, x);
            },
            Op::Kill { v } => {
                lemma_kill_preserves_lww(r, v);
            },
        }
    }
}

/// PER-KEY CONVERGENCE REDUCES TO CONVERGENCE OF THE LIST: two schedules (two replicas, two delivery orders) that start from the
/// same state, end with the same chain (C01 -- for two concurrent items: yata L2 / L3 `theorem_l2_same_list`,
/// `theorem_l3_same_list`) and carry the same removals end in the same state -- same `map[key]`, same tombstones, same value
pub proof fn theorem_outcome_is_a_function_of_the_chain(s: KeyState, ops1: Seq<Op>, ops2: Seq<Op>)
    requires
        wf(s),
        ops_ok(s, ops1),
        ops_ok(s, ops2),
        run(s, ops1).chain == run(s, ops2).chain,
        extra(ops1) == extra(ops2),
    ensures
        run(s, ops1) == run(s, ops2),
        value(run(s, ops1)) == value(run(s, ops2)),
{
    theorem_run(s, ops1);
    theorem_run(s, ops2);
    assert(run(s, ops1).dead =~= run(s, ops2).dead);
}

// ---- (D1) "a value that has been overwritten by an operation that had seen it never resurfaces"
/// QUOTED from unit yata, contract of `Item::resolve_conflict`:
///     "(P1) PLACEMENT  0 <= c <= e <= r <= |L|  and  final(self).left == place(L, old(self).left, c): the incoming left or a member
///      of L strictly before the right neighbour"        with  place(L, left0, c) = left0 for c == 0, else L[c - 1]
/// For an item whose incoming left neighbour is K[i] -- a local write: (B) `pos.left = map[key]`, origin = its last id; a remote
/// one: `Update::integrate` sets `left` to the item that holds the origin (NOT in this unit) -- yata's list is
/// L = rights(K[i].right) = K[i + 1 ..], so the new left neighbour is K[i + c] and the position in K is p = i + 1 + c
pub open spec fn yata_p1(n: int, i: int, c: int, p: int) -> bool {
    0 <= c <= n - (i + 1) && p == i + 1 + c
}

/// v is an item of the chain that is not the right-most one, and it is deleted
pub open spec fn buried(s: KeyState, v: ID) -> bool {
    &&& exists|j: int| 0 <= j < s.chain.len() - 1 && s.chain[j] == v
    &&& s.dead.contains(v)
    &&& s.cur != Some(v)
}

pub proof fn theorem_d1_overwritten_is_buried(s: KeyState, i: int, x: ID, c: int, p: int, pd: bool)
    requires
        wf(s),
        0 <= i < s.chain.len(),
        !s.chain.contains(x),
        // the writer had seen v = K[i]: origin v, hence (P1) placed right of it
        yata_p1(s.chain.len() as int, i, c, p),
    ensures
        i < p <= s.chain.len(),
        wf(step(s, x, p, pd)),
        // after ONE integration step v is not `map[key]`, and it is deleted (by C2 now, or it already was)
        buried(step(s, x, p, pd), s.chain[i]),
        value(step(s, x, p, pd)) != Some(s.chain[i]),
{
    let t = step(s, x, p, pd);
    let v = s.chain[i];
    lemma_step_preserves_lww(s, x, p, pd);
    assert(t.chain[i] == v);
    assert(0 <= i < t.chain.len() - 1 && t.chain[i] == v);
    assert(t.dead.contains(t.chain[i]));
    assert(s.chain.contains(v));
    if p < s.chain.len() {
        assert(t.chain.last() == s.chain.last());
        if i < s.chain.len() - 1 { assert(s.chain[i] != s.chain[s.chain.len() - 1]); }
    }
}

/// ... and it stays so under EVERY later integration on this key and every removal: it never resurfaces
pub proof fn theorem_d1_never_resurfaces(s: KeyState, v: ID, ops: Seq<Op>)
    requires
        wf(s),
        buried(s, v),
        ops_ok(s, ops),
    ensures
        buried(run(s, ops), v),
        value(run(s, ops)) != Some(v),
    decreases ops.len(),
{
    if ops.len() > 0 {
        let r = run(s, ops.drop_last());
        theorem_d1_never_resurfaces(s, v, ops.drop_last());
        theorem_run(s, ops.drop_last());
        let j = choose|j: int| 0 <= j < r.chain.len() - 1 && r.chain[j] == v;
        match ops.last() {
            Op::Put { x, p, pd } => {
                let t = step(r, x, p, pd);
                lemma_step_preserves_lww(r, x, p, pd);
                assert(r.chain.contains(v));
                let j2 = if j < p { j } else { j + 1 };
                assert(t.chain[j2] == v);
                assert(0 <= j2 < t.chain.len() - 1 && t.chain[j2] == v);
                if p < r.chain.len() {
                    assert(t.chain.last() == r.chain.last());
                }
            },
            Op::Kill { v: u } => {
                assert(0 <= j < kill(r, u).chain.len() - 1 && kill(r, u).chain[j] == v);
            },
        }
    }
}

// ---- (D2) two concurrent writes on the same current entry: the higher client id wins on every replica
/// QUOTED from unit yata:
///     "(L2) same origin AND same right origin (hence same neighbours), x.client < y.client, ANY base list b:
///      `theorem_l2_same_origins_commute`: in both delivery orders x ends up BEFORE y"
///     ensures  0 <= c1 < c2 <= b.len() + 1  [x, then y]   and   0 <= d2 <= d1 <= b.len()  [y, then x]
/// Both writers saw v as the current entry: (B) both items have left = v, origin = last id of v, NO right neighbour and no right
/// origin -- the hypotheses of L2.  Here v = K[n - 1] is still the right-most item when the first of them arrives (b is empty),
/// so (P1) and (L2) leave exactly one choice of positions in each delivery order:
pub proof fn theorem_d2_concurrent_writes(s: KeyState, lo: ID, hi: ID, p1: int, p2: int, q1: int, q2: int)
    requires
        wf(s),
        s.chain.len() > 0,
        lo != hi,
        !s.chain.contains(lo),
        !s.chain.contains(hi),
        // (P1) right of v = K[n - 1], in the list they are integrated into
        s.chain.len() - 1 < p1 <= s.chain.len(),
        s.chain.len() - 1 < p2 <= s.chain.len() + 1,
        s.chain.len() - 1 < q1 <= s.chain.len(),
        s.chain.len() - 1 < q2 <= s.chain.len() + 1,
        // (L2) delivery order lo, hi: lo (lower client id) is before hi
        p1 < p2,
        // (L2) delivery order hi, lo: lo is before hi
        q2 <= q1,
    ensures ({
        let a = step(step(s, lo, p1, false), hi, p2, false);
        let b = step(step(s, hi, q1, false), lo, q2, false);
        let v = s.chain.last();
        // both delivery orders end in the same state
        &&& a == b
        &&& wf(a)
        &&& a.chain == s.chain.push(lo).push(hi)
        // the write of the HIGHER client id is the current entry; v and the other write are deleted; the winner is not deleted by
        // either integration
        &&& a.cur == Some(hi)
        &&& a.dead =~= s.dead.insert(v).insert(lo)
        &&& !s.dead.contains(hi) ==> value(a) == Some(hi)
    }),
{
    let n = s.chain.len() as int;
    let v = s.chain.last();
    let a1 = step(s, lo, p1, false);
    let a = step(a1, hi, p2, false);
    let b1 = step(s, hi, q1, false);
    let b = step(b1, lo, q2, false);
    assert(p1 == n && p2 == n + 1 && q1 == n && q2 == n);
    lemma_step_preserves_lww(s, lo, p1, false);
    lemma_step_preserves_lww(a1, hi, p2, false);
    lemma_step_preserves_lww(s, hi, q1, false);
    lemma_step_preserves_lww(b1, lo, q2, false);
    assert(a1.chain =~= s.chain.push(lo));
    assert(a.chain =~= s.chain.push(lo).push(hi));
    assert(b1.chain =~= s.chain.push(hi));
    assert(b.chain =~= s.chain.push(lo).push(hi));
    lemma_set_of_log(s.chain, lo, p1, false);
    lemma_set_of_log(a1.chain, hi, p2, false);
    lemma_set_of_log(s.chain, hi, q1, false);
    lemma_set_of_log(b1.chain, lo, q2, false);
    assert(a1.chain.last() == lo);
    assert(b1.chain.last() == hi);
    assert(a.dead =~= s.dead.insert(v).insert(lo));
    assert(b.dead =~= s.dead.insert(v).insert(lo));
    assert(a.chain == b.chain);
    assert(s.chain.contains(v));
    assert(!b1.chain.contains(lo)) by {
        if b1.chain.contains(lo) {
            let i = choose|i: int| 0 <= i < b1.chain.len() && b1.chain[i] == lo;
            if i < n { assert(s.chain.contains(s.chain[i])); }
        }
    }
    assert(!a1.chain.contains(hi)) by {
        if a1.chain.contains(hi) {
            let i = choose|i: int| 0 <= i < a1.chain.len() && a1.chain[i] == hi;
            if i < n { assert(s.chain.contains(s.chain[i])); }
        }
    }
}

/// (D2, any base) wherever v is on the integrating replica: two delivery orders that produce the same chain (yata L2+,
/// `theorem_l2_same_list`) with lo before hi produce the same state, and lo -- not being right-most -- is deleted in it: the
/// write of the lower client id never wins against the concurrent write of the higher one
pub proof fn theorem_d2_any_base(s: KeyState, lo: ID, hi: ID, p1: int, p2: int, q1: int, q2: int)
    requires
        wf(s),
        lo != hi,
        !s.chain.contains(lo),
        !s.chain.contains(hi),
        0 <= p1 <= s.chain.len(),
        0 <= p2 <= s.chain.len() + 1,
        0 <= q1 <= s.chain.len(),
        0 <= q2 <= s.chain.len() + 1,
        // (L2) lo before hi in both delivery orders
        p1 < p2,
        q2 <= q1,
        // (L2+) the same list
        s.chain.insert(p1, lo).insert(p2, hi) == s.chain.insert(q1, hi).insert(q2, lo),
    ensures ({
        let a = step(step(s, lo, p1, false), hi, p2, false);
        let b = step(step(s, hi, q1, false), lo, q2, false);
        &&& a == b
        &&& wf(a)
        &&& a.dead.contains(lo)
        &&& value(a) != Some(lo)
    }),
{
    let a1 = step(s, lo, p1, false);
    let a = step(a1, hi, p2, false);
    let b1 = step(s, hi, q1, false);
    let b = step(b1, lo, q2, false);
    lemma_step_preserves_lww(s, lo, p1, false);
    lemma_step_preserves_lww(a1, hi, p2, false);
    lemma_step_preserves_lww(s, hi, q1, false);
    lemma_step_preserves_lww(b1, lo, q2, false);
    assert(!a1.chain.contains(hi)) by {
        if a1.chain.contains(hi) {
            let i = choose|i: int| 0 <= i < a1.chain.len() && a1.chain[i] == hi;
            if i < p1 { assert(s.chain.contains(s.chain[i])); } else if i > p1 { assert(s.chain.contains(s.chain[i - 1])); }
        }
    }
    assert(!b1.chain.contains(lo)) by {
        if b1.chain.contains(lo) {
            let i = choose|i: int| 0 <= i < b1.chain.len() && b1.chain[i] == lo;
            if i < q1 { assert(s.chain.contains(s.chain[i])); } else if i > q1 { assert(s.chain.contains(s.chain[i - 1])); }
        }
    }
    assert(a.dead =~= b.dead);
    assert(a.cur == b.cur);
    // lo is at position p1 < p2 of the final chain: not the right-most
    assert(a.chain[p1] == lo);
    assert(0 <= p1 < a.chain.len() - 1);
    assert(a.dead.contains(a.chain[p1]));
    assert(a.chain.last() != lo) by {
        assert(a.chain[p1] != a.chain[a.chain.len() - 1]);
    }
}

// ---- (D3) "a write concurrent with a removal survives it"
/// The removal deletes the CURRENT entry item v of the replica it is issued on and creates no item (B, `Branch::remove`); a
/// concurrent write w was created with origin v (B) and is integrated RIGHT of v (P1).  Whether the removal reaches a replica
/// before or after w: same state, w is the current entry, and neither the removal nor w's own integration deletes it
pub proof fn theorem_d3_write_survives_removal(s: KeyState, w: ID, p: int)
    requires
        wf(s),
        s.chain.len() > 0,
        !s.chain.contains(w),
        // (P1) right of v = K[n - 1] (the right-most item here)
        s.chain.len() - 1 < p <= s.chain.len(),
    ensures ({
        let v = s.chain.last();
        let a = step(kill(s, v), w, p, false);
        let b = kill(step(s, w, p, false), v);
        &&& a == b
        &&& wf(a)
        &&& a.cur == Some(w)
        &&& a.dead =~= s.dead.insert(v)
        &&& !s.dead.contains(w) ==> value(a) == Some(w)
    }),
{
    let v = s.chain.last();
    let a = step(kill(s, v), w, p, false);
    let b = kill(step(s, w, p, false), v);
    lemma_kill_preserves_lww(s, v);
    lemma_step_preserves_lww(kill(s, v), w, p, false);
    lemma_step_preserves_lww(s, w, p, false);
    lemma_set_of_log(s.chain, w, p, false);
    assert(a.dead =~= s.dead.insert(v));
    assert(b.dead =~= s.dead.insert(v));
    assert(s.chain.contains(v));
}

// ---- test vectors: the specification is not vacuous and says what the comments say
pub open spec fn ex_id(client: u64, clock: u32) -> ID {
    ID { client: ClientID(client), clock }
}

/// key written once by client 1 (a), then overwritten by client 3 (b: origin a, arrives right-most); then a STALE write c of client
/// 2 arrives that had only seen a (origin a, no right origin): yata meets b -- same origin, same right origin, client id 3 not
/// lower than 2: a `twin`, the scan ends -- and places c between a and b (position 1): the value stays b, c is deleted on arrival
pub proof fn example_overwrite_then_stale_arrival()
    ensures ({
        let a = ex_id(1, 0);
        let b = ex_id(3, 0);
        let c = ex_id(2, 0);
        let s0 = KeyState { chain: seq![a], cur: Some(a), dead: ISet::<ID>::empty() };
        let s1 = step(s0, b, 1, false);
        let s2 = step(s1, c, 1, false);
        &&& wf(s0)
        &&& s1.cur == Some(b) && value(s1) == Some(b) && s1.dead.contains(a) && !s1.dead.contains(b)
        &&& s2.chain == seq![a, c, b] && s2.cur == Some(b) && value(s2) == Some(b) && s2.dead.contains(c) && s2.dead.contains(a)
    }),
{
    let a = ex_id(1, 0);
    let b = ex_id(3, 0);
    let c = ex_id(2, 0);
    let s0 = KeyState { chain: seq![a], cur: Some(a), dead: ISet::<ID>::empty() };
    let s1 = step(s0, b, 1, false);
    let s2 = step(s1, c, 1, false);
    assert(s0.chain[0] == a);
    lemma_set_of_log(s0.chain, b, 1, false);
    lemma_set_of_log(s1.chain, c, 1, false);
    assert(s1.chain =~= seq![a, b]);
    assert(s2.chain =~= seq![a, c, b]);
    assert(s1.chain.last() == b);
}

// ---------------------------------------------------------------------------------------------
// the real code, part 1: accessors
// ---------------------------------------------------------------------------------------------
impl ID {
    /*@extract yrs/src/block.rs | impl ID | fn new | label=ID.new
    @ret r
    @sig
        ensures r == (ID { client, clock }),
    @*/
}

impl Item {
    /*@extract yrs/src/block.rs | impl Item | fn is_deleted
    @ret r
    @sig
        ensures r == !live(self),
    @*/

    /*@extract yrs/src/block.rs | impl Item | fn len | label=Item.len
    @ret r
    @sig
        ensures r == self.len,
    @*/

    // DOMAIN RESTRICTION item_ok: the block invariant of unit blockstore (`ok()`: at least one clock, the clocks fit in u32)
    /*@extract yrs/src/block.rs | impl Item | fn last_id | label=Item.last_id
    @ret r
    @sig
        requires item_ok(self),
        ensures r == last_id_spec(self),
    @*/

    /*@extract yrs/src/block.rs | impl Item | fn id | label=Item.id
    @ret r
    @sig
        ensures *r == self.id,
    @*/

    // (A) exact
    /*@extract yrs/src/block.rs | impl Item | fn needs_deletion | label=Item.needs_deletion
    @ret r
    @sig
        ensures
            r == needs_del(*self, bv(parent)),
            // spelled out: the parent's own item is a tombstone, or this is an entry item that is not the right-most of its chain
            r == ((parent.item is Some && !live(parent.item.unwrap())) || (self.parent_sub is Some && self.right is Some)),
    @*/
}

// ---------------------------------------------------------------------------------------------
// the real code, part 2: the entry bookkeeping of TransactionMut::integrate_item (R18 statement regions)
// ---------------------------------------------------------------------------------------------

// (C1) `if let Some(mut left) = item.left { .. } else { item.right = .. }`
/*@extract yrs/src/block.rs | impl<'doc> TransactionMut<'doc> | region integrate_item | stmt=stmt:if ^ item.left | stmtnth=1 | label=lww_reconnect
@header
    fn lww_reconnect<T: TxnApi>(item: &mut Item, item_ptr: ItemPtr, parent: &mut Branch, txn: &mut T)
@sig
    ensures
        c1_post(*old(item), *final(item), item_ptr, bv(old(parent)), bv(final(parent)), tv(old(txn)), tv(final(txn))),
        // the same, clause by clause.  FRAME: only `item.right` changes; nothing is deleted here
        *final(item) == (Item { right: final(item).right, ..*old(item) }),
        final(txn).deleted() == old(txn).deleted(),
        // behind a left neighbour: its old right neighbour becomes the item's, its right link the item
        old(item).left is Some ==> final(item).right == old(item).left.unwrap().right && bv(final(parent)) == bv(old(parent))
            && final(txn).writes() == old(txn).writes().push(Write::Right(old(item).left.unwrap().id, Some(item_ptr.id))),
        // an ENTRY item without left neighbour: in front of the LEFT-MOST item of its key's chain (nothing, for a key never written)
        old(item).left is None && old(item).parent_sub is Some ==> final(item).right == leftmost_opt(lookup(old(parent).map@, old(item).parent_sub.unwrap()))
            && bv(final(parent)) == bv(old(parent)) && final(txn).writes() == old(txn).writes(),
        // a LIST item without left neighbour: the new start of the list
        old(item).left is None && old(item).parent_sub is None ==> final(item).right == old(parent).start && final(parent).start == Some(item_ptr)
            && final(parent).map@ == old(parent).map@ && final(parent).item == old(parent).item && final(txn).writes() == old(txn).writes(),
@before 1 `stmt:while`
    let ghost vx_r0 = r;
@loop 1
    invariant
        leftmost_opt(r) == leftmost_opt(vx_r0),
    ensures
        r == leftmost_opt(vx_r0),
    decreases r,
@loopstart 1
    proof {
        lemma_leftmost(right);
    }
@*/

// (C1, step) the BODY of the walk to the left-most item of the key's chain (`break` is spelled `return (false, r)`)
/*@extract yrs/src/block.rs | impl<'doc> TransactionMut<'doc> | region integrate_item | stmt=stmt:while #1 >> stmt:if | stmtnth=1 | tail=(true, r) | label=lww_walk_step | rules=SUB(from=break;;to=return (false, r))
@header
    fn lww_walk_step(right: ItemPtr, mut r: Option<ItemPtr>) -> (res: (bool, Option<ItemPtr>))
@sig
    requires
        r == Some(right),
    ensures
        // the walk goes on, to the LEFT neighbour, iff there is one; otherwise it stays on the item
        res.0 == (right.left is Some),
        res.1 == (if right.left is Some { right.left } else { Some(right) }),
        leftmost_opt(res.1) == Some(leftmost(right)),
@start
    proof {
        lemma_leftmost(right);
    }
@*/

// (C2) `if let Some(mut right) = item.right { right.left = .. } else if let Some(parent_sub) = .. { map.insert; delete(left) }`
/*@extract yrs/src/block.rs | impl<'doc> TransactionMut<'doc> | region integrate_item | stmt=stmt:if ^ item.right | stmtnth=1 | label=lww_publish
@header
    fn lww_publish<T: TxnApi>(item: &Item, item_ptr: ItemPtr, parent: &mut Branch, txn: &mut T)
@sig
    ensures
        c2_post(*item, item_ptr, bv(old(parent)), bv(final(parent)), tv(old(txn)), tv(final(txn))),
        // the same, clause by clause.  NOT right-most: the right neighbour's left link is the item; the map entry is NOT touched and
        // nothing is deleted here
        item.right is Some ==> final(txn).writes() == old(txn).writes().push(Write::Left(item.right.unwrap().id, Some(item_ptr.id))),
        item.right is Some ==> bv(final(parent)) == bv(old(parent)) && final(txn).deleted() == old(txn).deleted(),
        // RIGHT-MOST entry item: it becomes `map[key]` ...
        item.right is None && item.parent_sub is Some ==> final(parent).map@ == old(parent).map@.insert(item.parent_sub.unwrap(), item_ptr)
            && final(parent).start == old(parent).start && final(parent).item == old(parent).item,
        // ... and the value it overrides -- its left neighbour -- is deleted: exactly that one
        item.right is None && item.parent_sub is Some && item.left is Some ==> final(txn).deleted() == old(txn).deleted().push(item.left.unwrap().id),
        item.right is None && item.parent_sub is Some && item.left is None ==> final(txn).deleted() == old(txn).deleted(),
        // a right-most LIST item: nothing
        item.right is None && item.parent_sub is None ==> bv(final(parent)) == bv(old(parent)) && final(txn).deleted() == old(txn).deleted(),
        item.right is None ==> final(txn).writes() == old(txn).writes(),
@*/

// (C3) `if item.needs_deletion(parent) { self.delete(item_ptr); }`
/*@extract yrs/src/block.rs | impl<'doc> TransactionMut<'doc> | region integrate_item | stmt=stmt:if ^ needs_deletion | stmtnth=1 | label=lww_final_delete
@header
    fn lww_final_delete<T: TxnApi>(item: &Item, item_ptr: ItemPtr, parent: BranchPtr, txn: &mut T)
@sig
    ensures
        c3_post(*item, item_ptr, bv(parent), tv(old(txn)), tv(final(txn))),
        // the same, clause by clause: the item itself is deleted iff its parent is deleted or it is an entry item that did not
        // arrive right-most
        needs_del(*item, bv(parent)) ==> final(txn).deleted() == old(txn).deleted().push(item_ptr.id),
        !needs_del(*item, bv(parent)) ==> final(txn).deleted() == old(txn).deleted(),
        final(txn).writes() == old(txn).writes(),
@*/

// ---------------------------------------------------------------------------------------------
// the real code, part 3: (B) the POSITION a local write chooses, the origin it gets, and what a removal deletes
// ---------------------------------------------------------------------------------------------
impl Branch {
    // whole function: deletes the CURRENT entry item of the key (whatever its tombstone flag), creates nothing
    /*@extract yrs/src/branch.rs | impl Branch | fn remove | label=Branch.remove | rules=SUB(from=fn remove;;to=fn remove<T: TxnApi>) SUB(from=txn: &mut TransactionMut;;to=txn: &mut T)
    @ret r
    @sig
        ensures
            // exactly one `delete`, of the current entry item `map[key]`; none for a key never written
            final(txn).deleted() == (match lookup(self.map@, *key) { Some(p) => old(txn).deleted().push(p.id), None => old(txn).deleted() }),
            // no link is written (no item is created or moved)
            final(txn).writes() == old(txn).writes(),
            // the value reported is what `get` returned for that key
            r == (match lookup(self.map@, *key) { Some(p) => if live(p) { p.content.last } else { None }, None => None }),
    @*/
}

impl MapRef {
    /// the branch behind the reference
    pub closed spec fn branch(&self) -> BranchPtr {
        self.0
    }

    /*@extract yrs/src/types/map.rs | impl AsRef<Branch> for MapRef | fn as_ref | label=MapRef.as_ref | rules=SUB(from=self.0.deref();;to=self.0)
    @ret r
    @sig
        ensures
            r == self.branch(),
    @*/

    // `Map::remove` (default method of trait Map, emitted as an inherent method): Branch::remove on the own branch
    /*@extract yrs/src/types/map.rs | trait Map: AsRef<Branch> + Sized | fn remove | label=Map.remove | rules=SUB(from=fn remove;;to=fn remove<T: TxnApi>) SUB(from=txn: &mut TransactionMut;;to=txn: &mut T) SUB(from=BranchPtr::from(self.as_ref());;to=self.as_ref())
    @ret r
    @sig
        ensures
            final(txn).deleted() == (match lookup(self.branch().map@, *key) { Some(p) => old(txn).deleted().push(p.id), None => old(txn).deleted() }),
            final(txn).writes() == old(txn).writes(),
    @*/
}

impl XmlElementRef {
    /// the branch behind the reference
    pub closed spec fn branch(&self) -> BranchPtr {
        self.0
    }

    /*@extract yrs/src/types/xml.rs | impl AsRef<Branch> for XmlElementRef | fn as_ref | label=XmlElementRef.as_ref
    @ret r
    @sig
        ensures
            r == self.branch(),
    @*/

    // `Xml::remove_attribute` (default method of trait Xml, emitted as an inherent method)
    /*@extract yrs/src/types/xml.rs | trait Xml: AsRef<Branch> | fn remove_attribute | label=Xml.remove_attribute | rules=SUB(from=fn remove_attribute<K>;;to=fn remove_attribute<K, T: TxnApi>) SUB(from=txn: &mut TransactionMut;;to=txn: &mut T) SUB(from=AsRef<str>;;to=AsRefStr)
    @sig
        ensures
            final(txn).deleted() == (match lookup(self.branch().map@, attr_name.str_of()) { Some(p) => old(txn).deleted().push(p.id), None => old(txn).deleted() }),
            final(txn).writes() == old(txn).writes(),
    @*/
}

// `Map::insert`: the `pos` block -- LEFT neighbour = the CURRENT entry item of the key, no right neighbour
/*@extract yrs/src/types/map.rs | trait Map: AsRef<Branch> + Sized | region insert | stmt=stmt:let pos | stmtnth=1 | tail=pos | label=map_insert_pos | rules=SUB(from=self.;;to=this.) INLINE(file=yrs/src/branch.rs;;container=impl Into<TypePtr> for BranchPtr;;fn=into;;body=TypePtr::Branch(self);;call=BranchPtr::from(inner).into();;to=TypePtr::Branch(inner))
@header
    fn map_insert_pos(this: &'static MapRef, key: Str) -> (pos: ItemPosition)
@sig
    ensures
        // the new item goes directly right of the current entry item (`map[key]`, the right-most item of the key's chain) ...
        pos.left == lookup(this.branch().map@, key),
        // ... and has no right neighbour (hence no right origin)
        pos.right is None,
        pos.parent == TypePtr::Branch(this.branch()),
        pos.index == 0,
        pos.current_attrs is None,
@*/

// `Xml::insert_attribute`: the same block
/*@extract yrs/src/types/xml.rs | trait Xml: AsRef<Branch> | region insert_attribute | stmt=stmt:let pos | stmtnth=1 | tail=pos | label=xml_insert_attribute_pos | rules=SUB(from=self.;;to=this.) INLINE(file=yrs/src/branch.rs;;container=impl Into<TypePtr> for BranchPtr;;fn=into;;body=TypePtr::Branch(self);;call=BranchPtr::from(inner).into();;to=TypePtr::Branch(inner))
@header
    fn xml_insert_attribute_pos(this: &'static XmlElementRef, key: Str) -> (pos: ItemPosition)
@sig
    ensures
        pos.left == lookup(this.branch().map@, key),
        pos.right is None,
        pos.parent == TypePtr::Branch(this.branch()),
        pos.index == 0,
        pos.current_attrs is None,
@*/

// `TransactionMut::create_item`: the neighbours and the ORIGIN of the new item, from the position
/*@extract yrs/src/transaction.rs | impl<'doc> TransactionMut<'doc> | region create_item | stmt=stmt:let left | stmtnth=2 | upto=stmt:let origin | tail=(left, right, origin) | label=create_item_origin
@header
    fn create_item_origin(pos: &ItemPosition) -> (r: (Option<ItemPtr>, Option<ItemPtr>, Option<ID>))
@sig
    requires
        // DOMAIN RESTRICTION (block invariant of unit blockstore), for `last_id`
        pos.left is Some ==> item_ok(pos.left.unwrap()),
    ensures
        r.0 == pos.left,
        r.1 == pos.right,
        // origin = the last id of the LEFT neighbour (None without one); never taken from the right neighbour
        r.2 == origin_of(pos.left),
@*/


/// STAND-IN for what `Item::new` is called with (the real constructor also derives `len` / `info` from the content, and returns
/// None for empty content): the ARGUMENTS are recorded as they are
pub struct NewItem {
    pub id: ID,
    pub left: Option<ItemPtr>,
    pub origin: Option<ID>,
    pub right: Option<ItemPtr>,
    pub right_origin: Option<ID>,
    pub parent: TypePtr,
    pub parent_sub: Option<Str>,
    pub content: ItemContent,
}

impl TypePtr {
    /// `#[derive(Clone)]`
    pub fn clone(&self) -> (r: TypePtr)
        ensures r == *self,
    {
        match self {
            TypePtr::Unknown => TypePtr::Unknown,
            TypePtr::Branch(b) => TypePtr::Branch(*b),
            TypePtr::Named(n) => TypePtr::Named(*n),
            TypePtr::ID(id) => TypePtr::ID(*id),
        }
    }
}

impl NewItem {
    /// STAND-IN for `Item::new` (SUB `Item::new(` -> `NewItem::new(`)
    pub fn new(id: ID, left: Option<ItemPtr>, origin: Option<ID>, right: Option<ItemPtr>, right_origin: Option<ID>, parent: TypePtr,
        parent_sub: Option<Str>, content: ItemContent) -> (r: Option<NewItem>)
        ensures
            r is Some ==> r.unwrap() == (NewItem { id, left, origin, right, right_origin, parent, parent_sub, content }),
    {
        Some(NewItem { id, left, origin, right, right_origin, parent, parent_sub, content })
    }
}

// `TransactionMut::create_item`: the constructor call -- which neighbour / origin goes where, and the RIGHT ORIGIN
/*@extract yrs/src/transaction.rs | impl<'doc> TransactionMut<'doc> | region create_item | stmt=stmt:let block | stmtnth=1 | tail=Some(block) | label=create_item_block | rules=SUB(from=Item::new;;to=NewItem::new)
@header
    fn create_item_block(id: ID, left: Option<ItemPtr>, origin: Option<ID>, right: Option<ItemPtr>, pos: &ItemPosition, parent_sub: Option<Str>, content: ItemContent) -> (r: Option<NewItem>)
@sig
    ensures
        r is Some ==> r.unwrap().left == left && r.unwrap().right == right && r.unwrap().origin == origin
            && r.unwrap().id == id && r.unwrap().parent_sub == parent_sub && r.unwrap().parent == pos.parent
            // right origin = the id of the right neighbour (None without one)
            && r.unwrap().right_origin == opt_id(right),
@closure 1 `|r: ItemPtr| -> (vx_r: ID)`
    ensures vx_r == r.id,
@*/

} // verus!
fn main() {}
