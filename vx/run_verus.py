#!/usr/bin/env python3
"""Assemble a unit from /repo's working tree and run Verus on it.

Verdicts (DESIGN.md 3.4):
  pass       every obligation generated from the assembled file was discharged
  fail       Verus rejected a clause (post/pre/invariant/assert/overflow/termination): named obligations
  undecided  lost anchor, unsupported construct, rlimit, tool crash  -> exit 2, never an alarm
"""
import json
import os
import re
import subprocess
import sys
import time

HERE = os.path.dirname(os.path.abspath(__file__))
sys.path.insert(0, HERE)
import extract  # noqa: E402

VERIF = os.path.dirname(HERE)
WORK = os.path.join(VERIF, '.work')
import threading
LENIENT_LOCK = threading.Lock()

VERUS_FLAGS = ['--no-trait-conflicts', '--triggers-mode', 'silent', '--output-json', '--time']

RLIMIT_PAT = re.compile(r'[Rr]esource limit|rlimit|timed? ?out|timeout', re.I)


def parse_stderr(err):
    """split rustc-style diagnostics"""
    blocks = []
    cur = None
    for line in err.split('\n'):
        if re.match(r'^(error|warning)(\[[A-Z0-9]+\])?:', line):
            cur = {'head': line, 'lines': [line]}
            blocks.append(cur)
        elif cur is not None:
            cur['lines'].append(line)
    out = []
    for b in blocks:
        head = b['head']
        if head.startswith('warning'):
            continue
        if 'aborting due to' in head:
            continue
        m = re.match(r'^error(\[([A-Z0-9]+)\])?:\s*(.*)$', head)
        code = m.group(2)
        msg = m.group(3)
        loc = None
        clause = None
        for l in b['lines']:
            m2 = re.match(r'^\s*-->\s*(.*?):(\d+):(\d+)', l)
            if m2 and loc is None:
                loc = (m2.group(1), int(m2.group(2)), int(m2.group(3)))
        # the labelled secondary span ("failed precondition", "failed this postcondition", ...)
        for i, l in enumerate(b['lines']):
            m3 = re.match(r'^\s*(\d+)\s*\|\s(.*)$', l)
            if m3 and i + 1 < len(b['lines']) and re.search(r'(failed (this )?(pre|post)condition|failed precondition|invariant|assertion)', b['lines'][i + 1]):
                clause = (int(m3.group(1)), m3.group(2).strip())
                break
        span_lines = [int(m4.group(1)) for m4 in (re.match(r'^\s*(\d+)\s*\|', l) for l in b['lines']) if m4]
        out.append({'code': code, 'msg': msg, 'loc': loc, 'clause': clause, 'span_lines': span_lines, 'text': '\n'.join(b['lines']).rstrip()})
    return out


def classify(diag):
    msg = diag['msg']
    if diag['code']:
        return 'tool'        # rustc error: type error / unsupported after rewriting
    if RLIMIT_PAT.search(msg):
        return 'rlimit'
    if VC_PAT.search(msg):
        return 'vc'
    return 'tool'


VC_PAT = re.compile(r'(postcondition not satisfied|precondition not satisfied|assertion failed|invariant not satisfied|'
                    r'decreases not satisfied|could not prove termination|possible arithmetic underflow/overflow|'
                    r'possible division by zero|possible bit shift underflow/overflow|'
                    r'assertion not satisfied|not satisfied|unable to prove (post|pre)-?condition|unable to prove|'
                    r'precondition not met|index in bounds)')


KIND_MAP = [
    ('postcondition', 'post'), ('post-condition', 'post'), ('precondition', 'pre'), ('pre-condition', 'pre'), ('invariant', 'inv'), ('assertion', 'assert'),
    ('overflow', 'overflow'), ('division', 'div0'), ('decreases', 'term'), ('shift', 'shift'),
    ('termination', 'term'), ('unreachable', 'unreachable'),
]


def kind_of(msg):
    for k, v in KIND_MAP:
        if k in msg:
            return v
    return 'vc'


def enclosing_fn(lines, lineno):
    for i in range(min(lineno, len(lines)) - 1, -1, -1):
        m = re.search(r'\bfn\s+([A-Za-z_][A-Za-z0-9_]*)', lines[i])
        if m:
            return m.group(1)
    return '?'


def run_unit(unit, repo='/repo', rlimit=50, seed=None, threads=None, keep=True, workdir_tag=None):
    t0 = time.time()
    # one private work directory per process and unit: concurrent checks (two properties sharing a unit, a scratch run next to
    # a /repo run) must never see each other's assembled file.  The result is published to .work/<unit>/ at the end.
    pub_wd = os.path.join(WORK, unit if not workdir_tag else '%s.%s' % (unit, workdir_tag))
    wd = '%s.p%d.%d' % (pub_wd, os.getpid(), threading.get_ident() % 1000003)
    os.makedirs(wd, exist_ok=True)
    out_path = os.path.join(wd, 'vx_%s.rs' % unit)
    try:
        r = _run_unit(unit, repo, rlimit, seed, threads, wd, out_path, t0)
        r['file'] = os.path.join(pub_wd, 'vx_%s.rs' % unit)
        return r
    finally:
        import shutil
        try:
            os.makedirs(pub_wd, exist_ok=True)
            for fn in os.listdir(wd):
                src = os.path.join(wd, fn)
                if os.path.isfile(src):
                    os.replace(src, os.path.join(pub_wd, fn))
        except OSError:
            pass
        shutil.rmtree(wd, ignore_errors=True)


def _run_unit(unit, repo, rlimit, seed, threads, wd, out_path, t0):
    res = {'unit': unit, 'status': None, 'failures': [], 'undecided': [], 'functions': [], 'verified': 0, 'errors': 0,
           'extracts': [], 'trusted': [], 'cmd': None, 'smt_ms': 0, 'wall_s': 0.0, 'file': out_path}
    lost = []
    try:
        try:
            with LENIENT_LOCK:
                meta = extract.assemble(VERIF, repo, unit, out_path)
        except extract.ExtractError as e0:
            if e0.kind != 'anchor-lost':
                raise
            # a proof hint lost its anchor (the function was restructured): retry without the lost hints.  Everything that
            # then fails in those functions is hint-level: only a concrete witness on the real code can make it a violation.
            with LENIENT_LOCK:
                extract.LENIENT['on'] = True
                extract.LENIENT['lost'] = []
                try:
                    meta = extract.assemble(VERIF, repo, unit, out_path)
                    lost = list(extract.LENIENT['lost'])
                finally:
                    extract.LENIENT['on'] = False
            if not lost:
                raise e0
    except extract.ExtractError as e:
        res['status'] = 'undecided'
        res['undecided'].append({'reason': e.kind, 'detail': e.msg})
        res['wall_s'] = time.time() - t0
        return res
    res['lost_hints'] = ['%s %s' % x for x in lost]
    lost_fns = set(w.split('::')[-1] for w, _ in lost)
    res['extracts'] = [e for e in meta['extracts'] if not e.get('dropped')]
    for e in meta['extracts']:
        if e.get('dropped'):
            res['undecided'].append({'reason': 'region-lost', 'detail': 'the statements lifted as `%s` could not be found in the changed function (%s)' % (e['label'], e['dropped'][:160]), 'function': e['label']})
    meta['extracts'] = res['extracts']
    res['trusted'] = meta['trusted']
    res['unit_rules'] = meta['unit_rules']
    cmd = ['verus', out_path] + VERUS_FLAGS
    if rlimit:
        cmd += ['--rlimit', str(rlimit)]
    if threads:
        cmd += ['--num-threads', str(threads)]
    if seed is not None:
        cmd += ['--smt-option', 'smt.random_seed=%d' % (seed % 100000)]
    res['cmd'] = ' '.join(cmd)
    p = subprocess.run(cmd, stdout=subprocess.PIPE, stderr=subprocess.PIPE, text=True, cwd=wd)
    # a spliced proof hint that no longer COMPILES against the changed function (it names a local that was renamed, inlined or
    # moved out of scope) is a lost hint, exactly like one whose anchor is gone: blank it and verify the rest.  Only text between
    # the hint markers is ever removed; the contract (@sig) and the real code are never touched.
    for _round in range(6):
        bad = []
        txt = open(out_path, encoding='utf-8').read()
        gl = extract.ghost_lines(txt)
        for d in parse_stderr(p.stderr):
            if d['code'] and d['loc'] and d['loc'][1] in gl:
                bad.append(d)
        if not bad:
            break
        tl = txt.split('\n')
        changed = False
        # hint regions as (first line, last line) pairs, 0-based; regions do not nest
        spans = []
        opn = None
        for q, l in enumerate(tl):
            pos = 0
            while True:
                ia = l.find(extract.GB, pos)
                ib = l.find(extract.GE, pos)
                if opn is None and ia >= 0 and (ib < 0 or ia < ib):
                    opn = q
                    pos = ia + len(extract.GB)
                elif opn is not None and ib >= 0:
                    spans.append((opn, q))
                    opn = None
                    pos = ib + len(extract.GE)
                else:
                    break
        done = set()
        for d in bad:
            ln = d['loc'][1] - 1
            sp = [x for x in spans if x[0] <= ln <= x[1]]
            if not sp or sp[0] in done:
                continue
            a, b = sp[0]
            ex = None
            for e in meta['extracts']:
                if e['out_lines'][0] <= ln + 1 <= e['out_lines'][1]:
                    ex = e
            if ex is None:
                continue
            done.add((a, b))
            first = tl[a][:tl[a].index(extract.GB)]
            last = tl[b][tl[b].rindex(extract.GE) + len(extract.GE):]
            for q in range(a, b + 1):
                tl[q] = ''
            tl[a] = first
            tl[b] = (tl[b] + last) if a == b else last
            lost.append((ex['label'], 'hint does not compile against the current function text (%s)' % d['msg'][:80]))
            changed = True
        if not changed:
            break
        with open(out_path, 'w', encoding='utf-8') as f:
            f.write('\n'.join(tl))
        p = subprocess.run(cmd, stdout=subprocess.PIPE, stderr=subprocess.PIPE, text=True, cwd=wd)
    res['lost_hints'] = ['%s %s' % x for x in lost]
    lost_fns = set(w.split('::')[-1] for w, _ in lost)
    res['wall_s'] = time.time() - t0
    with open(os.path.join(wd, 'verus.stderr'), 'w') as f:
        f.write(p.stderr)
    with open(os.path.join(wd, 'verus.stdout'), 'w') as f:
        f.write(p.stdout)
    js = None
    try:
        js = json.loads(p.stdout)
    except Exception:
        pass
    diags = parse_stderr(p.stderr)
    assembled = open(out_path, encoding='utf-8').read()
    lines = assembled.split('\n')
    glines = extract.ghost_lines(assembled)
    if js is not None:
        vr = js.get('verification-results', {})
        res['verified'] = vr.get('verified', 0)
        res['errors'] = vr.get('errors', 0)
        smt = js.get('times-ms', {}).get('smt', {})
        res['smt_ms'] = smt.get('total', 0)
        for mod in smt.get('smt-run-module-times', []):
            for fb in mod.get('function-breakdown', []):
                res['functions'].append({'function': fb.get('function'), 'mode': fb.get('mode:', fb.get('mode')),
                                         'time_us': fb.get('time-micros'), 'rlimit': fb.get('rlimit'), 'success': fb.get('success')})
    for d in diags:
        cls = classify(d)
        line = d['loc'][1] if d['loc'] else 0
        ex = None
        for e in meta['extracts']:
            if e['out_lines'][0] <= line <= e['out_lines'][1]:
                ex = e
                break
        if ex is None and cls == 'vc':
            # the primary span of a failed postcondition is the clause itself, which for trait methods sits in the trait
            # declaration of the template; the function that fails it is named by the secondary spans (`at this exit`, ...)
            for ln2 in d.get('span_lines', []):
                for e in meta['extracts']:
                    if e['out_lines'][0] <= ln2 <= e['out_lines'][1] and e.get('kind', 'fn') != 'sig-only':
                        ex = e
                        break
                if ex:
                    break
        label = ex['label'] if ex else enclosing_fn(lines, line)
        src = lines[line - 1].strip() if 0 < line <= len(lines) else ''
        if cls == 'vc':
            kind = kind_of(d['msg'])
            clause = d['clause'][1] if d['clause'] else src
            ob = '%s::%s::%s' % (unit, label, kind)
            # contract: a clause of the real function's own contract, a callee precondition at a real call site,
            #           overflow / bounds / termination of real code
            # hint:     located inside a spliced proof hint (assert, lemma precondition, loop invariant)
            # lemma:    inside a pure lemma of the template (cannot depend on /repo)
            level = 'contract' if ex else 'lemma'
            if ex and line in glines:
                level = 'hint'
            if ex and level == 'contract' and ('/*vxdbg*/' in src or src.startswith('debug_assert!')):
                # the code's own debug assertion could not be proved: a sanity check of the implementation, not a clause of the
                # property's contract (a redundant debug_assert! added to correct code needs new invariants, nothing else)
                level = 'debug-assert'
            if ex and (ex.get('name') in lost_fns or ex.get('label') in lost_fns):
                level = 'hint-lost'    # hints of this function were dropped (lost anchors): a failure may just be a missing hint
            res['failures'].append({'level': level,
                'obligation': ob, 'clause': extract.norm_ws(clause)[:200], 'kind': kind, 'message': d['msg'],
                'function': label, 'real_code': bool(ex), 'source': ({'file': ex['file'], 'lines': ex['lines'], 'sha256': ex['sha256']} if ex else None),
                'at': extract.norm_ws(src)[:200], 'verus_output': d['text'][:4000]})
        elif cls == 'rlimit':
            res['undecided'].append({'reason': 'rlimit', 'detail': '%s in %s' % (d['msg'], label), 'function': label if ex else None})
        else:
            res['undecided'].append({'reason': 'unsupported-or-tool', 'detail': '%s (%s line %d: %s)' % (d['msg'], label, line, src[:120]),
                                     'function': label if ex else None})
    if js is None and not diags:
        res['undecided'].append({'reason': 'tool-crash', 'detail': 'verus produced no JSON; exit %s; stderr tail: %s' % (p.returncode, p.stderr[-500:])})
    if res['undecided']:
        res['status'] = 'undecided'
    elif res['failures'] or res['errors']:
        res['status'] = 'fail'
        if not res['failures']:
            res['status'] = 'undecided'
            res['undecided'].append({'reason': 'tool', 'detail': 'errors reported but no diagnostic parsed'})
    elif js is not None and js.get('verification-results', {}).get('success'):
        res['status'] = 'pass'
    else:
        res['status'] = 'undecided'
        res['undecided'].append({'reason': 'tool', 'detail': 'no success flag; exit %s' % p.returncode})
    return res


def main():
    import argparse
    ap = argparse.ArgumentParser()
    ap.add_argument('unit')
    ap.add_argument('--repo', default='/repo')
    ap.add_argument('--rlimit', type=int, default=50)
    ap.add_argument('--json', action='store_true')
    ap.add_argument('-v', action='store_true')
    a = ap.parse_args()
    r = run_unit(a.unit, a.repo, rlimit=a.rlimit)
    if a.json:
        json.dump(r, sys.stdout, indent=1)
        print()
    else:
        print('unit %s: %s  verified=%d errors=%d smt=%dms wall=%.1fs' % (r['unit'], r['status'], r['verified'], r['errors'], r['smt_ms'], r['wall_s']))
        for f in r['failures']:
            print('  FAIL %s  [%s]  at: %s' % (f['obligation'], f['clause'], f['at']))
            if a.v:
                print(f['verus_output'])
        for u in r['undecided']:
            print('  UNDECIDED %s: %s' % (u['reason'], u['detail']))
        for h in r.get('lost_hints', []):
            print('  LOST-HINT (anchor not found, hint dropped): %s' % h)
        slow = sorted([f for f in r['functions'] if f['time_us']], key=lambda f: -f['time_us'])[:5]
        for f in slow:
            print('  slow: %s %.2fs rlimit=%s %s' % (f['function'], f['time_us'] / 1e6, f['rlimit'], 'ok' if f['success'] else 'FAILED'))
    sys.exit({'pass': 0, 'fail': 1, 'undecided': 2}[r['status']])


if __name__ == '__main__':
    main()
