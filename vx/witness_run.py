#!/usr/bin/env python3
"""Witness search / replay bridge (DESIGN.md 3.6).  Decides nothing: it only runs AFTER a verifier has
rejected an obligation, to attach a concrete failing input to the report, and to re-execute a recorded
input against the real code (bin/check --replay, and the "does the known finding still reproduce" test).

Witness kinds:
  vx_witness      small-scope enumeration through the public API of the real crate (/verif/witness)
  kani-playback   concrete values printed by `cargo kani --concrete-playback=print` for a failed harness;
                  replay = re-run that harness (deterministic) on the current tree
  bytes           a byte string fed to a named decoding entry point of the real crate (/verif/witness `bytes` mode)
"""
import json
import os
import subprocess
import sys

HERE = os.path.dirname(os.path.abspath(__file__))
VERIF = os.path.dirname(HERE)
CACHE = os.path.join(VERIF, '.cache')
WDIR = os.path.join(VERIF, 'witness')


def _build(repo):
    """build /verif/witness against the given repo root; returns path of the binary or None"""
    if not os.path.isdir(WDIR):
        return None
    env = dict(os.environ)
    env['CARGO_NET_OFFLINE'] = 'true'
    tdir = os.path.join(CACHE, 'witness-target')
    manifest = os.path.join(WDIR, 'Cargo.toml')
    if os.path.abspath(repo) != '/repo':
        # a scratch overlay: point a temporary manifest at it
        import shutil
        import tempfile
        d = tempfile.mkdtemp(prefix='vx-wit-', dir='/tmp')
        shutil.copytree(WDIR, os.path.join(d, 'witness'), ignore=shutil.ignore_patterns('target'))
        m = os.path.join(d, 'witness', 'Cargo.toml')
        t = open(m).read().replace('/repo/yrs', os.path.join(os.path.abspath(repo), 'yrs'))
        open(m, 'w').write(t)
        manifest = m
    p = subprocess.run(['cargo', 'build', '--offline', '--quiet', '--manifest-path', manifest, '--target-dir', tdir],
                       env=env, stdout=subprocess.PIPE, stderr=subprocess.STDOUT, text=True)
    if p.returncode != 0:
        sys.stderr.write('witness build failed:\n' + p.stdout[-2000:] + '\n')
        return None
    return os.path.join(tdir, 'debug', 'vx_witness')


def target_for(cfg, fn, unit=None):
    """the search target for a function label: its own entry, else the property's default target (if any; `default_units`
    restricts the default to the units whose defects the default search can actually reach)"""
    if not cfg or not fn:
        return None
    t = cfg.get('targets', {}).get(fn)
    if t:
        return t
    if cfg.get('default_units') is not None and unit is not None and unit not in cfg['default_units']:
        return None
    return cfg.get('default')


def _ignore_args(cfg, tgt):
    # the decoder targets take a committed list of disagreements already recorded as known findings (never written at run time)
    if cfg.get('ignore_file') and tgt in ('decoders', 'dec_all'):
        return ['--ignore-file', os.path.join(VERIF, cfg['ignore_file'])]
    return []


def search(cfg, failure, repo='/repo'):
    """cfg: {"kind": "vx_witness", "targets": {<function label>: <search target>}, "universe": 6}"""
    if cfg.get('kind') != 'vx_witness':
        return None
    tgt = target_for(cfg, failure.get('function'), (failure.get('obligation') or '').split('::')[0] or None)
    if not tgt:
        return None
    exe = _build(repo)
    if not exe:
        return None
    try:
        p = subprocess.run([exe, 'search', tgt, '--universe', str(cfg.get('universe', 6)), '--max-seconds', str(cfg.get('max_seconds', 120))] + _ignore_args(cfg, tgt),
                           stdout=subprocess.PIPE, stderr=subprocess.PIPE, text=True, timeout=cfg.get('max_seconds', 120) + 60)
    except subprocess.TimeoutExpired:
        return None
    line = p.stdout.strip().split('\n')[-1] if p.stdout.strip() else ''
    try:
        js = json.loads(line)
    except ValueError:
        return None
    if js.get('found') is False or p.returncode == 0:
        return None
    return {'kind': 'vx_witness', 'case': js}


def _replay_witness(w, repo):
    """returns True if the recorded input still fails, False if it passes now, None if it cannot be run"""
    if not w:
        return None
    if w.get('kind') in ('vx_witness', 'bytes'):
        exe = _build(repo)
        if not exe:
            return None
        arg = json.dumps(w['case']) if w['kind'] == 'vx_witness' else json.dumps(w)
        p = subprocess.run([exe, 'replay', arg], stdout=subprocess.PIPE, stderr=subprocess.PIPE, text=True, timeout=300)
        print(p.stdout.strip())
        return p.returncode == 1
    if w.get('kind') == 'kani-playback':
        sys.path.insert(0, HERE)
        import kani_run
        r = kani_run.run_group({'files': ['kani/' + w['file']]}, 'thorough', repo, only=[w['harness']])
        for h in r['harnesses']:
            print('kani harness %s: %s %s' % (h['name'], h['status'], h.get('failed_check', '')))
            return h['status'] == 'FAILED'
        return None
    return None


def replay(path, repo='/repo'):
    """bin/check --replay <file>: exit 1 if the recorded failing input still fails, 0 if it passes now, 2 if there is none"""
    js = json.load(open(path))
    w = js.get('witness')
    if not w:
        print('replay file %s names obligation %s and carries the verifier output, but no concrete input (no-failing-input-found)' % (path, js.get('obligation')))
        for t in js.get('verifier_output', [])[:2]:
            print(t)
        return 2
    r = _replay_witness(w, repo)
    if r is None:
        print('cannot run the witness')
        return 2
    print('REPRODUCED' if r else 'does not reproduce on the current tree')
    return 1 if r else 0


def finding_still_fails(k, repo='/repo'):
    """for a known finding with a recorded witness: does it still fail on the real code? None = no witness recorded"""
    w = k.get('witness')
    if not w:
        return None
    return _replay_witness(w, repo)


def fidelity(cfg, repo='/repo'):
    """thorough tier, rewrite fidelity (DESIGN 3.7): the EXTRACTED text is proved equal to the mathematical spec by Verus;
    here the REAL crate is compared with the same set/map semantics exhaustively over a small universe through its public
    API.  A disagreement while all proofs pass means the extraction (or the oracle) misrepresents the code: exit 2, never a
    property verdict.  returns (ok: bool|None, detail, cases)"""
    exe = _build(repo)
    if not exe:
        return None, 'witness tool not built', 0
    try:
        p = subprocess.run([exe, 'search', cfg.get('target', 'all'), '--universe', str(cfg.get('universe', 7)), '--max-seconds', str(cfg.get('max_seconds', 300))] + _ignore_args(cfg, cfg.get('target', 'all')),
                           stdout=subprocess.PIPE, stderr=subprocess.PIPE, text=True, timeout=cfg.get('max_seconds', 300) + 120)
    except subprocess.TimeoutExpired:
        return None, 'timeout', 0
    line = p.stdout.strip().split('\n')[-1] if p.stdout.strip() else ''
    try:
        js = json.loads(line)
    except ValueError:
        return None, 'unparsable output', 0
    if js.get('found') is False:
        ign = js.get('ignored_disagreements', 0)
        return True, 'real crate agrees with the oracle of witness target %s on %d cases%s' % (cfg.get('target', 'all'), js.get('cases', 0), (' (%d disagreements listed in %s ignored: known finding)' % (ign, cfg.get('ignore_file')) if ign else '')), js.get('cases', 0)
    return False, json.dumps(js)[:600], 0
