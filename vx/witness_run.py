#!/usr/bin/env python3
"""Witness search / replay bridge (DESIGN.md 3.6).  Decides nothing: it only runs AFTER a verifier has
rejected an obligation, to attach a concrete failing input to the report, and to re-execute a recorded
input against the real code (bin/check --replay, and the "does the known finding still reproduce" test).

Witness kinds:
  vx_witness      small-scope enumeration through the public API of the real crate (/verif/witness)
  kani-playback   concrete values printed by `cargo kani --concrete-playback=print` for a failed harness;
                  replay = re-run that harness (deterministic) on the current tree
  bytes           a byte string fed to a named decoding entry point of the real crate (/verif/witness `bytes` mode)
"""
import json
import os
import subprocess
import sys

HERE = os.path.dirname(os.path.abspath(__file__))
VERIF = os.path.dirname(HERE)
CACHE = os.path.join(VERIF, '.cache')
WDIR = os.path.join(VERIF, 'witness')


_PRIVATE_BINS = []


def _cleanup_bins():
    for b in _PRIVATE_BINS:
        try:
            os.remove(b)
        except OSError:
            pass


import atexit
atexit.register(_cleanup_bins)


def _build(repo):
    """build /verif/witness against the CONTENT of the given repo root and return the path of a binary that belongs to this
    process alone (None if it cannot be built).

    The sources are first mirrored by CHECKSUM into .cache/witness-src (rsync -rc: a file whose content changed gets a fresh
    mtime there, an unchanged one keeps its old one), and the crate is built from that mirror.  Two hazards are closed this way:
    (1) cargo decides freshness by mtime, so a tree whose files were restored or swapped with preserved timestamps would
    silently keep the previous binary; (2) the shared target directory yields ONE binary path, so concurrent runs for different
    trees (bin/matrix, a scratch run next to a /repo run) would execute each other's build.  Build and copy happen under a
    file lock; the copy is private and removed at exit."""
    if not os.path.isdir(WDIR):
        return None
    import fcntl
    import shutil
    env = dict(os.environ)
    env['CARGO_NET_OFFLINE'] = 'true'
    os.makedirs(CACHE, exist_ok=True)
    tdir = os.path.join(CACHE, 'witness-target')
    mirror = os.path.join(CACHE, 'witness-src')
    repo = os.path.abspath(repo)
    lockf = open(os.path.join(CACHE, 'witness.lock'), 'w')
    fcntl.flock(lockf, fcntl.LOCK_EX)
    try:
        os.makedirs(os.path.join(mirror, 'yrs'), exist_ok=True)
        os.makedirs(os.path.join(mirror, 'witness'), exist_ok=True)
        rs = ['rsync', '-rc', '--delete', '--exclude', 'target', '--exclude', 'node_modules', '--exclude', 'pkg']
        ok = subprocess.run(rs + [os.path.join(repo, 'yrs') + '/', os.path.join(mirror, 'yrs') + '/']).returncode == 0
        ok = ok and subprocess.run(rs + ['--exclude', 'Cargo.toml', WDIR + '/', os.path.join(mirror, 'witness') + '/']).returncode == 0
        for name in ('Cargo.toml', 'Cargo.lock'):
            src = os.path.join(repo, name)
            if os.path.exists(src):
                ok = ok and subprocess.run(['rsync', '-c', src, os.path.join(mirror, name)]).returncode == 0
        for member in ('yffi', 'ywasm'):
            msrc = os.path.join(repo, member)
            if os.path.isdir(msrc):
                os.makedirs(os.path.join(mirror, member), exist_ok=True)
                subprocess.run(['rsync', '-c', os.path.join(msrc, 'Cargo.toml'), os.path.join(mirror, member, 'Cargo.toml')])
                if os.path.isdir(os.path.join(msrc, 'src')):
                    subprocess.run(rs + [os.path.join(msrc, 'src') + '/', os.path.join(mirror, member, 'src') + '/'])
        if not ok:
            sys.stderr.write('witness: could not mirror the sources\n')
            return None
        m = os.path.join(mirror, 'witness', 'Cargo.toml')
        t = open(os.path.join(WDIR, 'Cargo.toml')).read().replace('/repo/yrs', os.path.join(mirror, 'yrs'))
        if not os.path.exists(m) or open(m).read() != t:
            open(m, 'w').write(t)
        p = subprocess.run(['cargo', 'build', '--offline', '--quiet', '--manifest-path', m, '--target-dir', tdir],
                           env=env, stdout=subprocess.PIPE, stderr=subprocess.STDOUT, text=True)
        if p.returncode != 0:
            sys.stderr.write('witness build failed:\n' + p.stdout[-2000:] + '\n')
            return None
        bdir = os.path.join(CACHE, 'witness-bin')
        os.makedirs(bdir, exist_ok=True)
        priv = os.path.join(bdir, 'vx_witness.%d.%d' % (os.getpid(), len(_PRIVATE_BINS)))
        shutil.copy2(os.path.join(tdir, 'debug', 'vx_witness'), priv)
        _PRIVATE_BINS.append(priv)
        return priv
    finally:
        lockf.close()


def target_for(cfg, fn, unit=None):
    """the search target for a function label: its own entry, else the property's default target (if any; `default_units`
    restricts the default to the units whose defects the default search can actually reach)"""
    if not cfg or not fn:
        return None
    t = cfg.get('targets', {}).get(fn)
    if t:
        return t
    if cfg.get('default_units') is not None and unit is not None and unit not in cfg['default_units']:
        return None
    return cfg.get('default')


def _ignore_args(cfg, tgt):
    # the decoder targets take a committed list of disagreements already recorded as known findings (never written at run time)
    if cfg.get('ignore_file') and tgt in ('decoders', 'dec_all'):
        return ['--ignore-file', os.path.join(VERIF, cfg['ignore_file'])]
    return []


LAST_SEARCH = []


def search(cfg, failure, repo='/repo'):
    """cfg: {"kind": "vx_witness", "targets": {<function label>: <search target>}, "universe": 6}"""
    if cfg.get('kind') != 'vx_witness':
        return None
    tgt = target_for(cfg, failure.get('function'), (failure.get('obligation') or '').split('::')[0] or None)
    if not tgt:
        return None
    exe = _build(repo)
    if not exe:
        return None
    # "a+b": several search targets, run one after the other, the time budget shared
    parts = [t for t in tgt.split('+') if t]
    del LAST_SEARCH[:]
    budget = max(30, int(cfg.get('max_seconds', 120) / max(1, len(parts))))
    for t in parts:
        # "target@N": this target with universe N instead of the property's default
        t, _, uni = t.partition('@')
        uni = uni or str(cfg.get('universe', 6))
        try:
            p = subprocess.run([exe, 'search', t, '--universe', uni, '--max-seconds', str(budget)] + _ignore_args(cfg, t),
                               stdout=subprocess.PIPE, stderr=subprocess.PIPE, text=True, timeout=budget + 60)
        except subprocess.TimeoutExpired:
            continue
        line = p.stdout.strip().split('\n')[-1] if p.stdout.strip() else ''
        try:
            js = json.loads(line)
        except ValueError:
            continue
        LAST_SEARCH.append({'target': t, 'found': not (js.get('found') is False or p.returncode == 0), 'cases': js.get('cases'), 'ignored_disagreements': js.get('ignored_disagreements')})
        if js.get('found') is False or p.returncode == 0:
            continue
        return {'kind': 'vx_witness', 'case': js}
    return None


def _replay_witness(w, repo):
    """returns True if the recorded input still fails, False if it passes now, None if it cannot be run"""
    if not w:
        return None
    if w.get('kind') in ('vx_witness', 'bytes'):
        exe = _build(repo)
        if not exe:
            return None
        arg = json.dumps(w['case']) if w['kind'] == 'vx_witness' else json.dumps(w)
        p = subprocess.run([exe, 'replay', arg], stdout=subprocess.PIPE, stderr=subprocess.PIPE, text=True, timeout=300)
        print(p.stdout.strip())
        return p.returncode == 1
    if w.get('kind') == 'kani-playback':
        sys.path.insert(0, HERE)
        import kani_run
        r = kani_run.run_group({'files': ['kani/' + w['file']]}, 'thorough', repo, only=[w['harness']])
        for h in r['harnesses']:
            print('kani harness %s: %s %s' % (h['name'], h['status'], h.get('failed_check', '')))
            return h['status'] == 'FAILED'
        return None
    return None


def replay(path, repo='/repo'):
    """bin/check --replay <file>: exit 1 if the recorded failing input still fails, 0 if it passes now, 2 if there is none"""
    js = json.load(open(path))
    w = js.get('witness')
    if not w:
        print('replay file %s names obligation %s and carries the verifier output, but no concrete input (no-failing-input-found)' % (path, js.get('obligation')))
        for t in js.get('verifier_output', [])[:2]:
            print(t)
        return 2
    r = _replay_witness(w, repo)
    if r is None:
        print('cannot run the witness')
        return 2
    print('REPRODUCED' if r else 'does not reproduce on the current tree')
    return 1 if r else 0


def finding_still_fails(k, repo='/repo'):
    """for a known finding with a recorded witness: does it still fail on the real code? None = no witness recorded"""
    w = k.get('witness')
    if not w:
        return None
    return _replay_witness(w, repo)


def fidelity(cfg, repo='/repo'):
    """thorough tier, rewrite fidelity (DESIGN 3.7): the EXTRACTED text is proved equal to the mathematical spec by Verus;
    here the REAL crate is compared with the same set/map semantics exhaustively over a small universe through its public
    API.  A disagreement while all proofs pass means the extraction (or the oracle) misrepresents the code: exit 2, never a
    property verdict.  returns (ok: bool|None, detail, cases)"""
    exe = _build(repo)
    if not exe:
        return None, 'witness tool not built', 0
    try:
        p = subprocess.run([exe, 'search', cfg.get('target', 'all'), '--universe', str(cfg.get('universe', 7)), '--max-seconds', str(cfg.get('max_seconds', 300))] + _ignore_args(cfg, cfg.get('target', 'all')),
                           stdout=subprocess.PIPE, stderr=subprocess.PIPE, text=True, timeout=cfg.get('max_seconds', 300) + 120)
    except subprocess.TimeoutExpired:
        return None, 'timeout', 0
    line = p.stdout.strip().split('\n')[-1] if p.stdout.strip() else ''
    try:
        js = json.loads(line)
    except ValueError:
        return None, 'unparsable output', 0
    if js.get('found') is False:
        ign = js.get('ignored_disagreements', 0)
        return True, 'real crate agrees with the oracle of witness target %s on %d cases%s' % (cfg.get('target', 'all'), js.get('cases', 0), (' (%d disagreements listed in %s ignored: known finding)' % (ign, cfg.get('ignore_file')) if ign else '')), js.get('cases', 0)
    return False, json.dumps(js)[:600], 0
