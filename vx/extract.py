#!/usr/bin/env python3
"""vx extractor: rebuilds a single-file Verus unit from /repo's working tree on every run.

A unit template (units/<unit>/unit.rs) is ordinary Verus text (prelude, spec functions, lemmas,
impl/trait wrappers) with directives inside `/*@ ... @*/` comments:

  /*@include <path relative to /verif> @*/
  /*@rules R1 R2(elem=...) ... @*/                         unit-wide rewrite rules
  /*@extract <file> | <container or -> | <kind> <name> [| key=val ...]
  @ret r                                                    name the return value  `-> T`  =>  `-> (r: T)`
  @sig
      requires ...  ensures ...
  @loop 2 [iter=it]
      invariant ... decreases ...
  @before 1 `source text at a statement start`
      proof { ... }
  @after 1 `source text at a statement start`
      proof { ... }
  @start            (ghost text right after the opening brace of the body)
  @end              (ghost text right before the closing brace of the body)
  @*/

`extract` pulls the item's exact token span from the file, applies the rewrite rules (each
application is logged) and splices the ghost text.  Only ghost text can be spliced: the splicer
rejects clause text that is not a requires/ensures/invariant/decreases clause or a sequence of
proof/assert/let ghost statements, and rejects `assume`/`admit` outright.
Errors raise ExtractError(kind, msg) with kind in {anchor-lost, bad-template, unsupported}.
"""
import hashlib
import json
import os
import re
import sys

sys.path.insert(0, os.path.dirname(os.path.abspath(__file__)))
from lex import lex, sig, match_close, strip_comments, LexError  # noqa: E402


class ExtractError(Exception):
    def __init__(self, kind, msg):
        Exception.__init__(self, '%s: %s' % (kind, msg))
        self.kind = kind
        self.msg = msg


def norm_ws(s):
    return re.sub(r'\s+', ' ', s).strip()


def norm_tokens(s):
    """canonical spelling of a header: tokens joined without whitespace except between words"""
    out = []
    prev = None
    for t in lex(s):
        if t[0] in ('ws', 'lcomment', 'bcomment'):
            continue
        if prev is not None and prev[0] in ('id', 'num', 'life') and t[0] in ('id', 'num', 'life'):
            out.append(' ')
        out.append(t[1])
        prev = t
    return ''.join(out)


# ---------------------------------------------------------------------------------------------
# item tree
# ---------------------------------------------------------------------------------------------

BODY_KW = ('fn', 'impl', 'trait', 'mod', 'struct', 'enum', 'union', 'macro_rules', 'extern')
ITEM_KW = BODY_KW + ('type', 'const', 'static', 'use')
MODIFIERS = ('pub', 'unsafe', 'async', 'default', 'crate')


class Item:
    def __init__(self):
        self.kind = None
        self.name = None
        self.header = ''      # normalized text up to the body / terminator
        self.attrs = []
        self.start = 0        # offset of first non-attribute token
        self.end = 0          # offset after last token
        self.body = None      # (open_offset, close_offset) of the braces, if any
        self.children = []


def parse_items(text, toks, lo, hi):
    """items among toks[lo:hi] (token indices)"""
    items = []
    k = lo
    while k < hi:
        t = toks[k]
        if t[0] in ('ws', 'lcomment', 'bcomment'):
            k += 1
            continue
        it = Item()
        # attributes
        while k < hi:
            t = toks[k]
            if t[0] in ('ws', 'lcomment', 'bcomment'):
                k += 1
                continue
            if t[0] == 'punct' and t[1] == '#':
                j = k + 1
                while toks[j][0] == 'ws':
                    j += 1
                if toks[j][1] == '!':
                    j += 1
                    while toks[j][0] == 'ws':
                        j += 1
                if toks[j][1] != '[':
                    break
                c = match_close(toks, j)
                it.attrs.append(norm_ws(text[t[2]:toks[c][3]]))
                k = c + 1
                continue
            break
        if k >= hi:
            break
        it.start = toks[k][2]
        # find keyword
        j = k
        kw = None
        while j < hi:
            t = toks[j]
            if t[0] in ('ws', 'lcomment', 'bcomment'):
                j += 1
                continue
            if t[0] == 'id' and t[1] in MODIFIERS:
                j += 1
                # pub(crate)
                jj = j
                while jj < hi and toks[jj][0] == 'ws':
                    jj += 1
                if jj < hi and toks[jj][1] == '(' and t[1] == 'pub':
                    j = match_close(toks, jj) + 1
                continue
            if t[0] == 'id' and t[1] == 'const':
                # `const fn` vs `const X`
                jj = j + 1
                while jj < hi and toks[jj][0] == 'ws':
                    jj += 1
                if jj < hi and toks[jj][1] in ('fn', 'unsafe', 'async', 'extern'):
                    j = jj
                    continue
                kw = 'const'
                break
            if t[0] == 'id' and t[1] == 'extern':
                jj = j + 1
                while jj < hi and toks[jj][0] == 'ws':
                    jj += 1
                if jj < hi and toks[jj][0] == 'str':
                    jj += 1
                    while jj < hi and toks[jj][0] == 'ws':
                        jj += 1
                if jj < hi and toks[jj][1] == 'fn':
                    j = jj
                    continue
                kw = 'extern'
                break
            if t[0] == 'id' and t[1] in ITEM_KW:
                kw = t[1]
                break
            # macro invocation or something else: treat as opaque item
            kw = 'other'
            break
        it.kind = kw
        kwidx = j
        # name
        if kw in ('fn', 'trait', 'mod', 'struct', 'enum', 'union', 'type', 'const', 'static'):
            jj = kwidx + 1
            while jj < hi and toks[jj][0] == 'ws':
                jj += 1
            if jj < hi and toks[jj][0] == 'id':
                it.name = toks[jj][1]
        elif kw == 'macro_rules':
            jj = kwidx + 1
            while jj < hi and (toks[jj][0] == 'ws' or toks[jj][1] == '!'):
                jj += 1
            if jj < hi:
                it.name = toks[jj][1]
        # scan to end
        j = kwidx
        depth = 0
        end = None
        while j < hi:
            t = toks[j]
            if t[0] == 'punct':
                if t[1] in '([':
                    depth += 1
                elif t[1] in ')]':
                    depth -= 1
                elif t[1] == '{':
                    c = match_close(toks, j)
                    if depth == 0 and kw in BODY_KW or kw == 'other':
                        it.body = (t[2], toks[c][2])
                        it.header = norm_tokens(text[toks[kwidx][2]:t[2]])
                        end = c
                        # `struct X {..}` done; tuple struct ends with ';' (handled below)
                        if kw == 'other':
                            # macro call `foo! { .. }` may be followed by ';'
                            jj = c + 1
                            while jj < hi and toks[jj][0] == 'ws':
                                jj += 1
                            if jj < hi and toks[jj][1] == ';':
                                end = jj
                        break
                    j = c
                elif t[1] == ';' and depth == 0:
                    it.header = norm_tokens(text[toks[kwidx][2]:t[2]])
                    end = j
                    break
            j += 1
        if end is None:
            raise ExtractError('unsupported', 'cannot delimit item starting at offset %d' % it.start)
        it.end = toks[end][3]
        if it.body and kw in ('impl', 'trait', 'mod'):
            # children
            ob = None
            for q in range(kwidx, end + 1):
                if toks[q][2] == it.body[0]:
                    ob = q
                    break
            it.children = parse_items(text, toks, ob + 1, end)
        items.append(it)
        k = end + 1
    return items


class SourceFile:
    cache = {}

    def __init__(self, root, rel):
        self.rel = rel
        self.path = os.path.join(root, rel)
        try:
            self.text = open(self.path, encoding='utf-8').read()
        except OSError as e:
            raise ExtractError('anchor-lost', 'cannot read %s: %s' % (rel, e))
        try:
            self.toks = lex(self.text)
            self.items = parse_items(self.text, self.toks, 0, len(self.toks))
        except LexError as e:
            raise ExtractError('unsupported', '%s: %s' % (rel, e))

    @classmethod
    def get(cls, root, rel):
        try:
            st = os.stat(os.path.join(root, rel))
            key = (root, rel, st.st_mtime_ns, st.st_size)
        except OSError:
            key = (root, rel, 0, 0)
        if key not in cls.cache:
            cls.cache[key] = SourceFile(root, rel)
        return cls.cache[key]

    def line_of(self, off):
        return self.text.count('\n', 0, off) + 1

    def find(self, container, kind, name, nth=None):
        """container: '-' (top level, also searched inside non-test mods) or an impl/trait header."""
        want = None if container.strip() == '-' else norm_tokens(container)
        found = []

        def walk(items, in_container, in_test):
            for it in items:
                test = in_test or any('cfg(test)' in a for a in it.attrs)
                if it.kind == 'mod':
                    walk(it.children, in_container, test)
                    continue
                if test:
                    continue
                if want is None and not in_container:
                    if it.kind == kind and it.name == name:
                        found.append(it)
                if it.kind in ('impl', 'trait'):
                    if want is not None and it.header == want:
                        if kind in ('impl', 'trait') and name in ('', '*', None):
                            found.append(it)
                        for ch in it.children:
                            if ch.kind == kind and ch.name == name:
                                found.append(ch)
        walk(self.items, False, False)
        if not found:
            raise ExtractError('anchor-lost', '%s: no %s %s in %s' % (self.rel, kind, name, container))
        if nth is not None:
            if nth - 1 >= len(found):
                raise ExtractError('anchor-lost', '%s: %s %s in %s has only %d matches' % (self.rel, kind, name, container, len(found)))
            return found[nth - 1]
        if len(found) > 1:
            raise ExtractError('anchor-lost', '%s: %s %s in %s is ambiguous (%d matches)' % (self.rel, kind, name, container, len(found)))
        return found[0]


# ---------------------------------------------------------------------------------------------
# rewrite rules (the complete list of what extraction changes; see DESIGN.md section 3.2)
# each rule: f(text, args, log) -> text ; log.append((rule_id, detail))
# ---------------------------------------------------------------------------------------------

def _balanced_args(text, open_idx):
    """text[open_idx] == '(' ; return index of matching ')' using the lexer"""
    toks = lex(text[open_idx:])
    c = match_close(toks, 0)
    return open_idx + toks[c][2]


def rule_R1(text, args, log):
    """SmallVec -> Vec"""
    n = 0

    def repl_ty(m):
        nonlocal n
        n += 1
        return 'Vec<' + m.group(1).strip() + '>'
    # SmallVec<[X; N]>  (X may contain <>, (), but no ';' at top level)
    out = []
    i = 0
    while True:
        j = text.find('SmallVec<[', i)
        if j < 0:
            out.append(text[i:])
            break
        out.append(text[i:j])
        k = j + len('SmallVec<[')
        depth = 0
        p = k
        while p < len(text):
            c = text[p]
            if c in '([<':
                depth += 1
            elif c in ')]>':
                if depth == 0:
                    break
                depth -= 1
            elif c == ';' and depth == 0:
                break
            p += 1
        elem = text[k:p]
        q = text.index(']', p)
        q2 = text.index('>', q)
        out.append('Vec<' + elem.strip() + '>')
        n += 1
        i = q2 + 1
    text = ''.join(out)
    # generic `A: smallvec::Array<Item = X>` + SmallVec<A>
    m = re.search(r',\s*A:\s*smallvec::Array<Item\s*=\s*', text)
    if m:
        k = m.end()
        depth = 0
        p = k
        while p < len(text):
            c = text[p]
            if c in '([<':
                depth += 1
            elif c in ')]>':
                if depth == 0:
                    break
                depth -= 1
            p += 1
        elem = text[k:p]
        text = text[:m.start()] + text[p + 1:]
        text = text.replace('SmallVec<A>', 'Vec<' + elem.strip() + '>')
        n += 1
    for a, b in (('SmallVec::new()', 'Vec::new()'), ('SmallVec::with_capacity(', 'Vec::with_capacity(')):
        c = text.count(a)
        if c:
            text = text.replace(a, b)
            n += c
    if n:
        log.append(('R1', 'SmallVec->Vec x%d' % n))
    return text


def rule_R2(text, args, log):
    """X.partition_point(|e| P) -> vx_partition_point(&X, |e: &ELEM| -> (r: bool) ensures r == (P) { P }, Ghost(|e: ELEM| P))"""
    elem = args.get('elem')
    n = 0
    while True:
        m = re.search(r'([A-Za-z_][A-Za-z0-9_\.]*)\s*\.\s*partition_point\s*\(', text)
        if not m:
            break
        if elem is None:
            raise ExtractError('bad-template', 'R2 needs elem=<element type>')
        op = m.end() - 1
        cl = _balanced_args(text, op)
        inner = text[op + 1:cl].strip()
        m2 = re.match(r'\|\s*([A-Za-z_][A-Za-z0-9_]*)\s*\|\s*(.*)$', inner, re.S)
        if not m2:
            raise ExtractError('unsupported', 'partition_point with a non-trivial closure: %s' % norm_ws(inner))
        var, pred = m2.group(1), m2.group(2).strip()
        new = ('vx_partition_point(&%s, |%s: &%s| -> (vx_r: bool) ensures vx_r == (%s) { %s }, Ghost(|%s: %s| %s))'
               % (m.group(1), var, elem, pred, pred, var, elem, pred))
        text = text[:m.start()] + new + text[cl + 1:]
        n += 1
    if n:
        log.append(('R2', 'partition_point x%d' % n))
    return text


def rule_R3(text, args, log):
    """X.drain(a..b); (result unused) -> vx_drain(&mut X, a, b);"""
    pat = re.compile(r'(^|\n)(\s*)([A-Za-z_][A-Za-z0-9_\.]*)\.drain\(\s*([A-Za-z_0-9 +\-]+?)\s*\.\.\s*([A-Za-z_0-9 +\-]+?)\s*\);')
    text, c = pat.subn(lambda m: '%s%svx_drain(&mut %s, %s, %s);' % (m.group(1), m.group(2), m.group(3), m.group(4), m.group(5)), text)
    if c:
        log.append(('R3', 'drain x%d' % c))
    return text


def rule_R4(text, args, log):
    """std::mem::take(&mut X) -> vx_take(&mut X)"""
    c = len(re.findall(r'(?:std|core)::mem::take\(', text))
    if c:
        text = re.sub(r'(?:std|core)::mem::take\(', 'vx_take(', text)
        log.append(('R4', 'mem::take x%d' % c))
    return text


def rule_R5(text, args, log):
    """for (i, e) in X.into_iter().enumerate() { B } -> let mut i: usize = 0; for e in X { B; i += 1; }
    (the index increment is appended at the end of the body)"""
    n = 0
    while True:
        m = re.search(r'for\s*\(\s*([A-Za-z_][A-Za-z0-9_]*)\s*,\s*([A-Za-z_][A-Za-z0-9_]*)\s*\)\s*in\s*([A-Za-z_][A-Za-z0-9_\.]*)\.into_iter\(\)\.enumerate\(\)\s*\{', text)
        if not m:
            break
        ob = m.end() - 1
        toks = lex(text[ob:])
        c = ob + toks[match_close(toks, 0)][2]
        i, e, x = m.group(1), m.group(2), m.group(3)
        body = text[ob + 1:c]
        new = 'let mut %s: usize = 0;\n        for %s in %s {%s    %s += 1;\n        }' % (i, e, x, body, i)
        text = text[:m.start()] + new + text[c + 1:]
        n += 1
    if n:
        log.append(('R5', 'enumerate x%d' % n))
    return text


def rule_R6(text, args, log):
    """slice-iteration for-loop with a tuple pattern, desugared to an index loop:
         for PAT in E.iter() { B }   (or `in &E`)
      -> let mut vx_i: usize = 0; while vx_i < E.len() { let PAT' = E[vx_i]; vx_i += 1; B }
    PAT' = PAT with `ref` added to every binding that lacks it (the loop variable was a reference).
    The increment precedes B so that `continue` keeps its meaning (Verus for-loops reject `continue`)."""
    n = 0
    pos = 0
    while True:
        m = re.compile(r'for\s*(\([^()]*\))\s*in\s*([^{;]*?)\s*\{').search(text, pos)
        if not m:
            break
        pat = m.group(1)
        expr = m.group(2).strip()
        if expr.endswith('.iter()'):
            base = expr[:-len('.iter()')]
        elif expr.startswith('&'):
            base = expr[1:].strip()
        else:
            pos = m.end()
            continue
        parts = [p.strip() for p in pat[1:-1].split(',')]
        newparts = []
        for p in parts:
            if p == '_' or p.startswith('ref '):
                newparts.append(p)
            elif re.match(r'^&?[A-Za-z_][A-Za-z0-9_]*$', p):
                newparts.append('ref ' + p.lstrip('&'))
            else:
                raise ExtractError('unsupported', 'R6: pattern %s' % pat)
        name = 'vx_i%d' % n if n else 'vx_i'
        new = ('let mut %s: usize = 0;\n        while %s < %s.len() { let (%s) = %s[%s]; %s += 1;'
               % (name, name, base, ', '.join(newparts), base, name, name))
        text = text[:m.start()] + new + text[m.end():]
        pos = m.start() + len(new)
        n += 1
    if n:
        log.append(('R6', 'tuple-pattern slice for-loop -> index loop x%d' % n))
    return text


def rule_INLINE(text, args, log):
    """inline a trivial accessor: INLINE(file=..;;container=..;;fn=NAME;;body=TEXT;;call=.NAME();;to=.TEXT')
    The accessor's body in /repo must be exactly `body` (checked on every run); every `call` is replaced by `to`."""
    for k in ('file', 'container', 'fn', 'body', 'call', 'to'):
        if k not in args:
            raise ExtractError('bad-template', 'INLINE needs %s=' % k)
    sf = SourceFile.get(args['_repo'], args['file'])
    it = sf.find(args['container'], 'fn', args['fn'])
    btxt = strip_comments(sf.text[it.body[0] + 1:it.body[1]])
    if norm_tokens(btxt) != norm_tokens(args['body']):
        raise ExtractError('anchor-lost', 'INLINE: body of %s is `%s`, expected `%s`' % (args['fn'], norm_ws(btxt), args['body']))
    c = text.count(args['call'])
    if c:
        text = text.replace(args['call'], args['to'])
        log.append(('INLINE', '%s -> %s x%d (accessor body checked)' % (args['call'], args['to'], c)))
    return text


def rule_R9(text, args, log):
    """debug_assert!(c) -> assert(c)  [proof obligation];  unreachable!()/panic!(..) -> vx_unreachable()"""
    n = 0
    while True:
        m = re.search(r'\bdebug_assert!\s*\(', text)
        if not m:
            break
        op = m.end() - 1
        cl = _balanced_args(text, op)
        inner = text[op + 1:cl]
        # drop a trailing message argument:  cond, "msg", args
        toks = lex(inner)
        depth = 0
        cut = None
        for t in toks:
            if t[0] == 'punct':
                if t[1] in '([{':
                    depth += 1
                elif t[1] in ')]}':
                    depth -= 1
                elif t[1] == ',' and depth == 0:
                    cut = t[2]
                    break
        cond = inner if cut is None else inner[:cut]
        text = text[:m.start()] + '/*vxdbg*/assert(' + cond.strip() + ')' + text[cl + 1:]
        n += 1
    for mac in ('unreachable', 'panic', 'unimplemented', 'todo'):
        while True:
            m = re.search(r'\b%s!\s*\(' % mac, text)
            if not m:
                break
            op = m.end() - 1
            cl = _balanced_args(text, op)
            text = text[:m.start()] + 'vx_unreachable()' + text[cl + 1:]
            n += 1
    if n:
        log.append(('R9', 'debug_assert/unreachable x%d' % n))
    return text


def rule_R10(text, args, log):
    """visibility: pub(crate)/pub(super) -> pub"""
    c = len(re.findall(r'\bpub\s*\(\s*(?:crate|super|in [^)]*)\)', text))
    if c:
        text = re.sub(r'\bpub\s*\(\s*(?:crate|super|in [^)]*)\)', 'pub', text)
        log.append(('R10', 'visibility x%d' % c))
    return text


def rule_SUB(text, args, log):
    """literal token substitution declared in the template: SUB(from=..,to=..) (used for type-path
    spellings such as `std::ops::Range` -> `Range`; every use is logged)"""
    a, b = args.get('from'), args.get('to')
    if a is None or b is None:
        raise ExtractError('bad-template', 'SUB needs from= and to=')
    c = text.count(a)
    if c:
        text = text.replace(a, b)
        log.append(('SUB', '%s -> %s x%d' % (a, b, c)))
    return text


RULES = {
    'R1': rule_R1, 'R2': rule_R2, 'R3': rule_R3, 'R4': rule_R4, 'R5': rule_R5, 'R6': rule_R6,
    'R9': rule_R9, 'R10': rule_R10, 'SUB': rule_SUB, 'INLINE': rule_INLINE,
}


def parse_rules(spec):
    """'R1 R2(elem=(Range<u32>, T)) SUB(from=a,to=b)' -> [(id, args)]"""
    out = []
    i = 0
    s = spec.strip()
    while i < len(s):
        if s[i].isspace():
            i += 1
            continue
        m = re.compile(r'[A-Za-z0-9_]+').match(s, i)
        if not m:
            raise ExtractError('bad-template', 'rules: cannot parse %r' % s[i:])
        rid = m.group(0)
        i = m.end()
        args = {}
        if i < len(s) and s[i] == '(':
            depth = 0
            j = i
            while j < len(s):
                if s[j] == '(':
                    depth += 1
                elif s[j] == ')':
                    depth -= 1
                    if depth == 0:
                        break
                j += 1
            body = s[i + 1:j]
            i = j + 1
            # split on top-level ';'
            for part in body.split(';;'):
                if '=' in part:
                    k, v = part.split('=', 1)
                    args[k.strip()] = v.strip()
        if rid not in RULES:
            raise ExtractError('bad-template', 'unknown rule %s' % rid)
        out.append((rid, args))
    return out


# ---------------------------------------------------------------------------------------------
# splicing ghost text
# ---------------------------------------------------------------------------------------------

SIG_START = ('requires', 'ensures', 'decreases', 'returns', 'recommends', 'no_unwind', 'opens_invariants', 'default_ensures')
LOOP_START = ('invariant', 'invariant_except_break', 'ensures', 'decreases')
STMT_START = ('proof', 'assert', 'let', 'broadcast', 'reveal', 'reveal_with_fuel', 'assert_by', 'assert_forall_by', 'hide')


def check_ghost(kind, text, where):
    body = strip_comments(text).strip()
    if not body:
        return
    if re.search(r'\b(assume|admit)\s*\(', body):
        raise ExtractError('bad-template', '%s: assume/admit is not allowed in spliced text' % where)
    first = re.match(r'[A-Za-z_]+', body)
    first = first.group(0) if first else ''
    if kind == 'sig':
        if first not in SIG_START:
            raise ExtractError('bad-template', '%s: signature clause must start with requires/ensures/decreases' % where)
        return
    if kind == 'loop':
        if first not in LOOP_START:
            raise ExtractError('bad-template', '%s: loop clause must start with invariant/ensures/decreases' % where)
        return
    # statement list: every top-level statement starts with a ghost keyword
    toks = [t for t in lex(body) if t[0] not in ('ws', 'lcomment', 'bcomment')]
    k = 0
    while k < len(toks):
        t = toks[k]
        if t[0] != 'id' or t[1] not in STMT_START:
            raise ExtractError('bad-template', '%s: spliced statement starts with %r (only proof/assert/let ghost allowed)' % (where, t[1]))
        if t[1] == 'let':
            if k + 1 >= len(toks) or toks[k + 1][1] not in ('ghost', 'tracked'):
                raise ExtractError('bad-template', '%s: only `let ghost`/`let tracked` may be spliced' % where)
        # advance to end of statement
        depth = 0
        j = k
        is_block = t[1] == 'proof'
        while j < len(toks):
            u = toks[j]
            if u[0] == 'punct':
                if u[1] in '([{':
                    depth += 1
                elif u[1] in ')]}':
                    depth -= 1
                    if depth == 0 and u[1] == '}' and (is_block or (j + 1 < len(toks) and toks[j + 1][1] != ';' and toks[j + 1][1] != 'by')):
                        # end of block statement (assert .. by { } may be followed by ';')
                        if j + 1 < len(toks) and toks[j + 1][1] == ';':
                            j += 1
                        break
                elif u[1] == ';' and depth == 0:
                    break
            j += 1
        k = j + 1


def fn_structure(text):
    """returns dict(body_open, body_close, term, loops=[(kw_off, brace_off)], arrow=(start,end) of return type)"""
    toks = lex(text)
    st = sig(toks)
    # find 'fn'
    fi = None
    for idx, (k, t) in enumerate(st):
        if t[0] == 'id' and t[1] == 'fn':
            fi = idx
            break
    if fi is None:
        raise ExtractError('unsupported', 'not a function')
    depth = 0
    body_open = None
    term = None
    arrow = None
    idx = fi
    angle = 0
    while idx < len(st):
        k, t = st[idx]
        if t[0] == 'punct':
            if t[1] in '([':
                depth += 1
            elif t[1] in ')]':
                depth -= 1
            elif t[1] == '-' and depth == 0 and idx + 1 < len(st) and st[idx + 1][1][1] == '>' and st[idx + 1][1][2] == t[3]:
                # return type: until `where` / `{` / `;` at depth 0
                j = idx + 2
                d2 = 0
                while j < len(st):
                    u = st[j][1]
                    if u[0] == 'punct' and u[1] in '([':
                        d2 += 1
                    elif u[0] == 'punct' and u[1] in ')]':
                        d2 -= 1
                    elif d2 == 0 and ((u[0] == 'punct' and u[1] in '{;') or (u[0] == 'id' and u[1] == 'where')):
                        break
                    j += 1
                if arrow is None:     # the function's own return type, not an `Fn(..) -> U` inside a where clause
                    arrow = (st[idx + 2][1][2], st[j - 1][1][3])
                idx = j
                continue
            elif t[1] == '{' and depth == 0:
                body_open = k
                break
            elif t[1] == ';' and depth == 0:
                term = k
                break
        idx += 1
    res = {'arrow': arrow, 'loops': [], 'loop_close': [], 'body_open': None, 'body_close': None, 'term': None, 'where': None}
    if term is not None:
        res['term'] = toks[term][2]
        return res, toks
    if body_open is None:
        raise ExtractError('unsupported', 'function without body or terminator')
    bc = match_close(toks, body_open)
    res['body_open'] = toks[body_open][2]
    res['body_close'] = toks[bc][2]
    # loops
    k = body_open + 1
    while k < bc:
        t = toks[k]
        if t[0] == 'id' and t[1] in ('while', 'for', 'loop'):
            # header end: first '{' at bracket depth 0
            d = 0
            j = k + 1
            while j < bc:
                u = toks[j]
                if u[0] == 'punct':
                    if u[1] in '([':
                        d += 1
                    elif u[1] in ')]':
                        d -= 1
                    elif u[1] == '{' and d == 0:
                        break
                j += 1
            jc = match_close(toks, j) if j < bc else None
            res['loops'].append((t[2], toks[j][2], t[1]))
            res['loop_close'].append(toks[jc][2] if jc is not None else None)
        k += 1
    return res, toks


def stmt_start_ok(toks, k):
    """token index k starts a statement: previous significant token is ; { or } (an `else` arm is
    the continuation of its `if` statement, not a statement start)"""
    if toks[k][0] == 'id' and toks[k][1] == 'else':
        return False
    j = k - 1
    while j >= 0 and toks[j][0] in ('ws', 'lcomment', 'bcomment'):
        j -= 1
    return j < 0 or (toks[j][0] == 'punct' and toks[j][1] in ';{}')


def stmt_kind(toks, k):
    """structural description of the statement starting at token index k: (kind, name)
    kinds: return/while/for/loop/if/match/break/continue, let NAME, assign NAME, call NAME, expr"""
    sg = []
    j = k
    depth = 0
    while j < len(toks) and len(sg) < 400:
        t = toks[j]
        if t[0] not in ('ws', 'lcomment', 'bcomment'):
            if t[0] == 'punct' and t[1] in '([{':
                depth += 1
            elif t[0] == 'punct' and t[1] in ')]}':
                depth -= 1
                if depth < 0:
                    break
            sg.append((t, depth))
            if t[0] == 'punct' and t[1] == ';' and depth == 0:
                break
        j += 1
    if not sg:
        return ('expr', '')
    first = sg[0][0]
    if first[0] == 'id' and first[1] in ('return', 'while', 'for', 'loop', 'if', 'match', 'break', 'continue'):
        return (first[1], '')
    if first[0] == 'id' and first[1] == 'let':
        for t, d in sg[1:]:
            if t[0] == 'id' and t[1] not in ('mut', 'ref', 'ghost', 'tracked'):
                return ('let', t[1])
        return ('let', '')
    # assignment: a top-level `=` (not ==, <=, >=, !=, =>) before any `(` at depth 0 ... scan depth-0 tokens
    for idx in range(1, len(sg)):
        t, d = sg[idx]
        if t[0] == 'punct' and t[1] == '=' and (d == 0):
            prev = sg[idx - 1][0]
            nxt = sg[idx + 1][0] if idx + 1 < len(sg) else None
            if nxt is not None and nxt[1] in ('=', '>') and nxt[2] == t[3]:
                continue
            if prev[1] in ('=', '!', '<', '>') and prev[3] == t[2]:
                continue
            if first[0] == 'id':
                return ('assign', first[1] if first[1] != 'self' else _last_field(sg, idx))
            if first[1] == '*' and len(sg) > 1:
                return ('assign', sg[1][0][1])
        if t[0] == 'punct' and t[1] == '{' and d == 1:
            break
    # call: identifier directly before the first `(`
    for idx in range(1, len(sg)):
        t, d = sg[idx]
        if t[0] == 'punct' and t[1] == '(' and sg[idx - 1][0][0] == 'id':
            return ('call', sg[idx - 1][0][1])
    return ('expr', first[1])


def _last_field(sg, upto):
    # `self.0[i].0.end = ..` -> name the assignment after the last identifier/number path segment before `=`
    name = 'self'
    for t, d in sg[:upto]:
        if t[0] == 'id' and d == 0:
            name = t[1]
    return name


def find_anchor(text, toks, pat, nth, where):
    """k-th occurrence (1-based) of an anchor at a statement start; returns the token index of the
    statement's first token.  Two forms:
      text        whitespace-insensitive prefix of the statement's source text
      stmt:KIND [NAME]   structural: the k-th statement of that kind in source order, KIND in
                  return|while|for|loop|if|match|break|continue|let|assign|call|expr
                  (let NAME = bound variable, assign NAME = first identifier of the target (last field for self.*),
                  call NAME = function/method called first).  Structural anchors survive edits to operators,
                  constants and operands."""
    sg = [(k, t) for k, t in enumerate(toks) if t[0] not in ('ws', 'lcomment', 'bcomment')]
    hits = []
    if pat.startswith('stmt:') and ' >> ' in pat:
        # nesting path `stmt:A [#n] >> stmt:B`: B is searched only inside the extent of the n-th statement A
        outer, inner = pat.split(' >> ', 1)
        on = 1
        mo = re.match(r'^(.*?)\s+#(\d+)\s*$', outer)
        if mo:
            outer, on = mo.group(1), int(mo.group(2))
        ko = find_anchor(text, toks, outer, on, where)
        eo = stmt_end(toks, ko)
        sub_hits = []
        n_try = 1
        while True:
            try:
                kk = find_anchor(text, toks, inner, n_try, where)
            except ExtractError:
                break
            if ko < kk <= eo:
                sub_hits.append(kk)
            if kk > eo:
                break
            n_try += 1
        if len(sub_hits) < nth:
            raise ExtractError('anchor-lost', '%s: structural anchor `%s` #%d not found (%d hits)' % (where, pat, nth, len(sub_hits)))
        return sub_hits[nth - 1]
    if pat.startswith('stmt:'):
        # optional content filter `stmt:KIND [NAME] ~ text`: only statements whose own source text contains `text`
        # (token-normalised) count; makes the ordinal independent of unrelated statements of the same kind
        body_has = None
        head_only = False
        if ' ~ ' in pat:
            pat0, body_has = pat.split(' ~ ', 1)
            body_has = norm_tokens(body_has)
        elif ' ^ ' in pat:
            # `stmt:if ^ text`: like `~`, but only the statement's HEAD (up to its first block) is searched
            pat0, body_has = pat.split(' ^ ', 1)
            body_has = norm_tokens(body_has)
            head_only = True
        else:
            pat0 = pat
        spec = pat0[5:].split()
        kind = spec[0]
        name = spec[1] if len(spec) > 1 else None
        for a in range(len(sg)):
            k, t = sg[a]
            if not stmt_start_ok(toks, k):
                continue
            if t[0] == 'punct' and t[1] in '})]':
                continue
            kd, nm = stmt_kind(toks, k)
            if kd == kind and (name is None or nm == name):
                if body_has is not None:
                    e = stmt_end(toks, k)
                    if head_only:
                        d = 0
                        q = k
                        while q <= e:
                            u = toks[q]
                            if u[0] == 'punct' and u[1] in '([':
                                d += 1
                            elif u[0] == 'punct' and u[1] in ')]':
                                d -= 1
                            elif u[0] == 'punct' and u[1] == '{' and d == 0:
                                break
                            q += 1
                        e = max(k, q - 1)
                    if body_has not in norm_tokens(text[toks[k][2]:toks[e][3]]):
                        continue
                hits.append(k)
        if len(hits) < nth:
            raise ExtractError('anchor-lost', '%s: structural anchor `%s` #%d not found (%d hits)' % (where, pat, nth, len(hits)))
        return hits[nth - 1]
    want = norm_tokens(pat)
    for a in range(len(sg)):
        k, t = sg[a]
        if not stmt_start_ok(toks, k):
            continue
        # build normalized text from here until long enough
        acc = ''
        prev = None
        b = a
        while b < len(sg) and len(acc) < len(want):
            u = sg[b][1]
            if prev is not None and prev[0] in ('id', 'num', 'life') and u[0] in ('id', 'num', 'life'):
                acc += ' '
            acc += u[1]
            prev = u
            b += 1
        if acc[:len(want)] == want and len(acc) >= len(want):
            hits.append(k)
    if len(hits) < nth:
        raise ExtractError('anchor-lost', '%s: anchor `%s` #%d not found at a statement start (%d hits)' % (where, pat, nth, len(hits)))
    return hits[nth - 1]


def stmt_end(toks, k):
    """index of the last token of the statement starting at token k"""
    first = toks[k]
    blocky = first[0] == 'id' and first[1] in ('if', 'while', 'for', 'loop', 'match', 'unsafe') or first[1] == '{'
    depth = 0
    j = k
    while j < len(toks):
        t = toks[j]
        if t[0] == 'punct':
            if t[1] in '([{':
                depth += 1
            elif t[1] in ')]}':
                depth -= 1
                if depth < 0:
                    return j - 1
                if depth == 0 and t[1] == '}' and blocky:
                    q = j + 1
                    while q < len(toks) and toks[q][0] in ('ws', 'lcomment', 'bcomment'):
                        q += 1
                    if q < len(toks) and toks[q][0] == 'id' and toks[q][1] == 'else':
                        j = q
                        continue
                    if q < len(toks) and toks[q][1] == ';':
                        return q
                    return j
            elif t[1] == ';' and depth == 0:
                return j
        j += 1
    return len(toks) - 1


ANCHOR_REPORT = []
# lenient mode: a proof hint (@loop/@before/@after/@closure) whose anchor is lost is dropped and recorded here instead of
# aborting the extraction; the runner then treats every failure of that function as hint-level
LENIENT = {'on': False, 'lost': []}
# markers around spliced proof hints (loop invariants, proof blocks): a failure located between them is a
# failure of the proof hint, not of the function's contract
GB = '/*vxg<*/'
GE = '/*>vxg*/'


def splice(text, sections, where):
    """sections: list of (kind, args, body)"""
    if LENIENT['on']:
        kept = []
        for sec in sections:
            if sec[0] in ('loop', 'before', 'after', 'closure', 'loopstart', 'loopend', 'afterloop'):
                try:
                    splice_strict(text, [sec] + [x for x in sections if x[0] == 'ret'], where)
                    kept.append(sec)
                except ExtractError as e:
                    if e.kind != 'anchor-lost':
                        raise
                    LENIENT['lost'].append((where, '@%s %s' % (sec[0], ' '.join(sec[1]))))
            else:
                kept.append(sec)
        sections = kept
    return splice_strict(text, sections, where)


def splice_strict(text, sections, where):
    """sections: list of (kind, args, body)"""
    inserts = []   # (offset, order, text)
    deletions = []  # (start, end) spans of the original text to drop (closure parameter lists being replaced)
    order = 0
    st, toks = fn_structure(text)
    retname = None
    for kind, args, body in sections:
        order += 1
        w = '%s @%s %s' % (where, kind, ' '.join(args))
        if kind == 'ret':
            retname = args[0]
            continue
        if kind == 'sig':
            check_ghost('sig', body, w)
            off = st['body_open'] if st['body_open'] is not None else st['term']
            inserts.append((off, order, '\n' + body.rstrip() + '\n'))
        elif kind == 'loop':
            check_ghost('loop', body, w)
            n = int(args[0])
            if n < 1 or n > len(st['loops']):
                raise ExtractError('anchor-lost', '%s: function has %d loops' % (w, len(st['loops'])))
            kw_off, br_off, kw = st['loops'][n - 1]
            for a in args[1:]:
                if a.startswith('iter='):
                    if kw != 'for':
                        raise ExtractError('bad-template', '%s: iter= on a non-for loop' % w)
                    # for PAT in EXPR {  ->  for PAT in NAME: EXPR {
                    m = re.compile(r'\bin\b').search(text, kw_off, br_off)
                    if not m:
                        raise ExtractError('anchor-lost', '%s: no `in` in for header' % w)
                    inserts.append((m.end(), order, ' ' + a[5:] + ':'))
            inserts.append((br_off, order + 0.5, '\n' + GB + body.rstrip() + GE + '\n'))
        elif kind in ('loopstart', 'loopend', 'afterloop'):
            # structural positions that survive edits of the statements themselves: first thing in the body of loop N,
            # last thing in it, and directly after the loop
            check_ghost('stmt', body, w)
            n = int(args[0])
            if n < 1 or n > len(st['loops']) or st['loop_close'][n - 1] is None:
                raise ExtractError('anchor-lost', '%s: function has %d loops' % (w, len(st['loops'])))
            kw_off, br_off, kw = st['loops'][n - 1]
            cl = st['loop_close'][n - 1]
            if kind == 'loopstart':
                inserts.append((br_off + 1, order, '\n' + GB + body.rstrip() + GE + '\n'))
            elif kind == 'loopend':
                inserts.append((cl, order, GB + body.rstrip() + GE + '\n'))
            else:
                inserts.append((cl + 1, order, '\n' + GB + body.rstrip() + GE + '\n'))
        elif kind in ('before', 'after'):
            check_ghost('stmt', body, w)
            n = int(args[0])
            pat = args[1]
            k = find_anchor(text, toks, pat, n, w)
            if not pat.startswith('stmt:'):
                kd, nm = stmt_kind(toks, k)
                sel = 'stmt:%s%s' % (kd, (' ' + nm) if nm and kd in ('let', 'assign', 'call', 'expr') else '')
                # ordinal of k among statements with the same selector
                ordn = 0
                for q, t in enumerate(toks):
                    if t[0] in ('ws', 'lcomment', 'bcomment') or not stmt_start_ok(toks, q) or (t[0] == 'punct' and t[1] in '})]'):
                        continue
                    kd2, nm2 = stmt_kind(toks, q)
                    sel2 = 'stmt:%s%s' % (kd2, (' ' + nm2) if nm2 and kd2 in ('let', 'assign', 'call', 'expr') else '')
                    if sel2 == sel:
                        ordn += 1
                    if q == k:
                        break
                ANCHOR_REPORT.append((where, kind, n, pat, ordn, sel))
            if kind == 'before':
                inserts.append((toks[k][2], order, GB + body.rstrip() + GE + '\n'))
            else:
                e = stmt_end(toks, k)
                inserts.append((toks[e][3], order, '\n' + GB + body.rstrip() + GE + '\n'))
        elif kind == 'closure':
            # annotate the N-th closure of the function (source order): its parameter list `|..|` is replaced by the
            # typed header given in the template, requires/ensures clauses are inserted, and an expression body is
            # wrapped in braces (Verus needs a block body once a return type is named).  Ghost-only: the body is untouched.
            check_ghost('sig', body, w)
            n = int(args[0])
            sgt = [(q, t) for q, t in enumerate(toks) if t[0] not in ('ws', 'lcomment', 'bcomment')]
            found = []
            for a in range(1, len(sgt)):
                q, t = sgt[a]
                pq, pt = sgt[a - 1]
                if t[0] == 'punct' and t[1] == '|' and ((pt[0] == 'punct' and pt[1] in '(,=') or (pt[0] == 'id' and pt[1] in ('move', 'return'))):
                    # closing bar
                    b = a + 1
                    if sgt[b][1][1] == '|':      # `||`
                        pass
                    else:
                        while b < len(sgt) and not (sgt[b][1][0] == 'punct' and sgt[b][1][1] == '|'):
                            b += 1
                    found.append((a, b))
            if len(args) > 2:
                # content selector: only closures whose text (parameters and body) contains the given text count
                def _cl_text(a, b):
                    d = 0
                    e = b + 1
                    while e < len(sgt):
                        u = sgt[e][1]
                        if u[0] == 'punct':
                            if u[1] in '([{':
                                d += 1
                            elif u[1] in ')]}':
                                if d == 0:
                                    break
                                d -= 1
                                if d == 0 and u[1] == '}' and sgt[b + 1][1][1] == '{':
                                    e += 1
                                    break
                            elif u[1] == ',' and d == 0:
                                break
                        e += 1
                    return norm_ws(text[sgt[a][1][2]:sgt[e - 1][1][3]])
                found = [(a, b) for a, b in found if norm_ws(args[2]) in _cl_text(a, b)]
            if len(found) < n:
                raise ExtractError('anchor-lost', '%s: function has %d matching closures' % (w, len(found)))
            a, b = found[n - 1]
            p_start = sgt[a][1][2]
            p_end = sgt[b][1][3]
            nxt = sgt[b + 1][1]
            hdr = args[1]
            if nxt[0] == 'punct' and nxt[1] == '{':
                inserts.append((p_start, order, hdr + '\n' + GB + body.rstrip() + GE + '\n'))
                # remove the old parameter list: done by a deletion marker below
                deletions.append((p_start, p_end))
            else:
                # expression body: ends before the `,` or closing bracket at depth 0
                d = 0
                e = b + 1
                while e < len(sgt):
                    u = sgt[e][1]
                    if u[0] == 'punct':
                        if u[1] in '([{':
                            d += 1
                        elif u[1] in ')]}':
                            if d == 0:
                                break
                            d -= 1
                        elif u[1] == ',' and d == 0:
                            break
                    e += 1
                body_end = sgt[e - 1][1][3]
                inserts.append((p_start, order, hdr + '\n' + GB + body.rstrip() + GE + '\n{ '))
                inserts.append((body_end, order, ' }'))
                deletions.append((p_start, p_end))
        elif kind == 'start':
            check_ghost('stmt', body, w)
            if st['body_open'] is None:
                raise ExtractError('bad-template', '%s: no body' % w)
            inserts.append((st['body_open'] + 1, order, '\n' + GB + body.rstrip() + GE + '\n'))
        elif kind == 'end':
            check_ghost('stmt', body, w)
            if st['body_close'] is None:
                raise ExtractError('bad-template', '%s: no body' % w)
            inserts.append((st['body_close'], order, GB + body.rstrip() + GE + '\n'))
        else:
            raise ExtractError('bad-template', '%s: unknown section' % w)
    if retname:
        if st['arrow'] is None:
            raise ExtractError('anchor-lost', '%s: @ret on a function without return type' % where)
        a, b = st['arrow']
        inserts.append((a, -1, '(' + retname + ': '))
        inserts.append((b, -0.5, ')'))
    inserts.sort(key=lambda x: (x[0], x[1]))
    out = []
    pos = 0

    def keep(a, b):
        # text[a:b] minus the deleted spans
        res = []
        cur = a
        for ds, de in sorted(deletions):
            if de <= cur or ds >= b:
                continue
            res.append(text[cur:max(cur, ds)])
            cur = max(cur, min(de, b))
        res.append(text[cur:b])
        return ''.join(res)
    for off, _, ins in inserts:
        out.append(keep(pos, off))
        out.append(ins)
        pos = off
    out.append(keep(pos, len(text)))
    return ''.join(out)


# ---------------------------------------------------------------------------------------------
# template processing
# ---------------------------------------------------------------------------------------------

DIRECTIVE = re.compile(r'/\*@(.*?)@\*/', re.S)


def parse_sections(body, where):
    """body: text after the first line of an extract directive"""
    sections = []
    cur = None
    for line in body.split('\n'):
        s = line.strip()
        m = re.match(r'^@(ret|sig|loopstart|loopend|afterloop|loop|before|after|start|end|header|drop|closure)\b(.*)$', s)
        if m:
            kind = m.group(1)
            rest = m.group(2).strip()
            args = []
            if kind in ('before', 'after'):
                m2 = re.match(r'^(\d+)\s+`(.*)`\s*$', rest)
                if not m2:
                    raise ExtractError('bad-template', '%s: @%s needs  N `pattern`' % (where, kind))
                args = [m2.group(1), m2.group(2)]
            elif kind in ('loop', 'loopstart', 'loopend', 'afterloop'):
                args = rest.split()
                if not args or not args[0].isdigit():
                    raise ExtractError('bad-template', '%s: @%s needs an ordinal' % (where, kind))
            elif kind == 'ret':
                args = rest.split()
                if len(args) != 1:
                    raise ExtractError('bad-template', '%s: @ret needs a name' % where)
            elif kind == 'closure':
                m2 = re.match(r'^(\d+)\s+`([^`]*)`\s*(?:has=`([^`]*)`)?\s*$', rest)
                if not m2:
                    raise ExtractError('bad-template', '%s: @closure needs  N `|typed params| -> (ret: T)` [has=`text`]' % where)
                args = [m2.group(1), m2.group(2)] + ([m2.group(3)] if m2.group(3) else [])
            elif kind == 'drop':
                m2 = re.match(r'^`(.*)`\s*$', rest)
                if not m2:
                    raise ExtractError('bad-template', '%s: @drop needs `statement prefix`' % where)
                args = [m2.group(1)]
            cur = [kind, args, []]
            sections.append(cur)
        else:
            if cur is None:
                if s:
                    raise ExtractError('bad-template', '%s: text before first @section: %r' % (where, s))
                continue
            cur[2].append(line)
    return [(k, a, '\n'.join(b)) for k, a, b in sections]


def extract_item(repo_root, rel, container, kind, name, opts, unit_rules, sections, where):
    sf = SourceFile.get(repo_root, rel)
    nth = int(opts['nth']) if 'nth' in opts else None
    log = []
    sections_all = list(sections)
    if kind == 'region':
        # R18 region extraction: the block of the n-th match arm `ARM =>` inside function `name` is lifted into a
        # function whose header (parameters = the region's free variables) is given by the template (@header);
        # statements listed with @drop (bindings that became parameters) are removed.  Everything is logged.
        it = sf.find(container, 'fn', name, None)
        ftxt = sf.text[it.start:it.end]
        ftoks = lex(ftxt)
        want = norm_tokens(opts.get('arm', ''))
        if not want and 'stmt' not in opts:
            raise ExtractError('bad-template', '%s: region needs arm= or stmt=' % where)
        if 'stmt' in opts:
            # statement region: the k-th statement matching a structural anchor (e.g. stmt=stmt:let prev, stmtnth=1),
            # optionally through the statement matching `upto=` (inclusive), becomes the body; `tail=` (template text, e.g.
            # the name of the bound variable) is appended as the result expression
            if opts['stmt'].startswith('after:'):
                # the region starts with the statement FOLLOWING the anchored one (robust when the lifted statement itself is
                # the one most likely to be rewritten)
                ka = find_anchor(ftxt, ftoks, opts['stmt'][6:], int(opts.get('stmtnth', '1')), where + ' region stmt')
                k0 = stmt_end(ftoks, ka) + 1
                while k0 < len(ftoks) and ftoks[k0][0] in ('ws', 'lcomment', 'bcomment'):
                    k0 += 1
                if k0 >= len(ftoks) or (ftoks[k0][0] == 'punct' and ftoks[k0][1] in '})]'):
                    raise ExtractError('anchor-lost', '%s: no statement follows the anchored one' % where)
            else:
                k0 = find_anchor(ftxt, ftoks, opts['stmt'], int(opts.get('stmtnth', '1')), where + ' region stmt')
            e0 = stmt_end(ftoks, k0)
            if 'toend' in opts:
                # through the last statement of the enclosing block
                d = 0
                q = k0
                while q < len(ftoks):
                    t = ftoks[q]
                    if t[0] == 'punct' and t[1] in '([{':
                        d += 1
                    elif t[0] == 'punct' and t[1] in ')]}':
                        if d == 0:
                            break
                        d -= 1
                    q += 1
                e0 = q - 1
                while e0 > k0 and ftoks[e0][0] in ('ws', 'lcomment', 'bcomment'):
                    e0 -= 1
            if 'upto' in opts:
                k1 = find_anchor(ftxt, ftoks, opts['upto'], int(opts.get('uptonth', '1')), where + ' region upto')
                if k1 < k0:
                    raise ExtractError('anchor-lost', '%s: upto= statement precedes stmt=' % where)
                e0 = stmt_end(ftoks, k1)
            if 'until' in opts:
                # exclusive end: everything from the first statement up to (not including) the `until=` statement
                k1 = find_anchor(ftxt, ftoks, opts['until'], int(opts.get('untilnth', '1')), where + ' region until')
                if k1 <= k0:
                    raise ExtractError('anchor-lost', '%s: until= statement does not follow stmt=' % where)
                e0 = k1 - 1
                while e0 > k0 and ftoks[e0][0] in ('ws', 'lcomment', 'bcomment'):
                    e0 -= 1
            raw = ftxt[ftoks[k0][2]:ftoks[e0][3]]
            init_txt = ''
            if 'init' in opts:
                # entry state from the context: the (top-level) `let` statement named by init= is copied in front of the lifted
                # statements, so the region starts from the variable's real initial value instead of an arbitrary parameter.
                # Checked: the statement precedes the region and the variable is not mentioned between the start of the
                # enclosing match arm (or the init statement, if there is no arm) and the region.
                ki = find_anchor(ftxt, ftoks, opts['init'], int(opts.get('initnth', '1')), where + ' region init')
                ei = stmt_end(ftoks, ki)
                if ei >= k0:
                    raise ExtractError('anchor-lost', '%s: init= statement does not precede the region' % where)
                var = opts['init'].split()[-1]
                lo = ei + 1
                pos = k0 - 1
                depth = 0
                while pos > ei:
                    t = ftoks[pos]
                    if t[0] == 'punct' and t[1] == '}':
                        depth += 1
                    elif t[0] == 'punct' and t[1] == '{':
                        if depth == 0:
                            q = pos - 1
                            while q > ei and ftoks[q][0] in ('ws', 'lcomment', 'bcomment'):
                                q -= 1
                            if ftoks[q][1] == '>' and ftoks[q - 1][1] == '=':
                                lo = pos
                                break
                        else:
                            depth -= 1
                    pos -= 1
                for q in range(lo, k0):
                    if ftoks[q][0] == 'id' and ftoks[q][1] == var:
                        raise ExtractError('anchor-lost', '%s: `%s` is mentioned between its initialisation and the lifted region' % (where, var))
                init_txt = strip_comments(ftxt[ftoks[ki][2]:ftoks[ei][3]]) + '\n'
                raw = ftxt[ftoks[ki][2]:ftoks[ei][3]] + '\n' + raw
                log.append(('R18', 'entry state: `%s` copied in front of the region (not mentioned in between: checked)' % norm_ws(init_txt)))
                raw_body = init_txt + strip_comments(ftxt[ftoks[k0][2]:ftoks[e0][3]])
            else:
                raw_body = strip_comments(raw)
            sha = hashlib.sha256(raw.encode()).hexdigest()
            body = '{\n' + raw_body + '\n' + opts.get('tail', '') + '\n}'
            header = None
            rest_sections = []
            for sk, sa, sb in sections:
                if sk == 'header':
                    header = strip_comments(sb).strip()
                elif sk == 'drop':
                    btoks = lex(body)
                    kk = find_anchor(body, btoks, sa[0], 1, where + ' @drop')
                    ee = stmt_end(btoks, kk)
                    log.append(('R18', 'dropped statement `%s`' % norm_ws(body[btoks[kk][2]:btoks[ee][3]])))
                    body = body[:btoks[kk][2]] + body[btoks[ee][3]:]
                else:
                    rest_sections.append((sk, sa, sb))
            if not header:
                raise ExtractError('bad-template', '%s: region needs @header' % where)
            log.append(('R18', 'statement(s) `%s`%s of fn %s lifted into `%s`%s' % (opts['stmt'], (' .. `%s`' % opts['upto']) if 'upto' in opts else '', name, norm_ws(header)[:120], (' with result `%s`' % opts['tail']) if opts.get('tail') else '')))
            text = header + ' ' + body
            sections = rest_sections
            start_line, end_line = sf.line_of(it.start + ftoks[k0][2]), sf.line_of(it.start + ftoks[e0][3])
            kind_eff = 'fn'
            want = None
        if want:
            sgt = [(k, t) for k, t in enumerate(ftoks) if t[0] not in ('ws', 'lcomment', 'bcomment')]
            hits = []
            for a in range(len(sgt)):
                acc = ''
                prev = None
                b = a
                while b < len(sgt) and len(acc) < len(want):
                    u = sgt[b][1]
                    if prev is not None and prev[0] in ('id', 'num', 'life') and u[0] in ('id', 'num', 'life'):
                        acc += ' '
                    acc += u[1]
                    prev = u
                    b += 1
                if acc == want and b < len(sgt) and sgt[b][1][1] == '{':
                    hits.append(sgt[b][0])
            armn = int(opts.get('armnth', '1'))
            if len(hits) < armn:
                raise ExtractError('anchor-lost', '%s: arm `%s` #%d not found in fn %s (%d hits)' % (where, opts['arm'], armn, name, len(hits)))
            ob = hits[armn - 1]
            cb = match_close(ftoks, ob)
            raw = ftxt[ftoks[ob][2]:ftoks[cb][3]]
            sha = hashlib.sha256(raw.encode()).hexdigest()
            body = strip_comments(raw)
            header = None
            rest_sections = []
            for sk, sa, sb in sections:
                if sk == 'header':
                    header = strip_comments(sb).strip()
                elif sk == 'drop':
                    btoks = lex(body)
                    k = find_anchor(body, btoks, sa[0], 1, where + ' @drop')
                    e = stmt_end(btoks, k)
                    log.append(('R18', 'dropped statement `%s`' % norm_ws(body[btoks[k][2]:btoks[e][3]])))
                    body = body[:btoks[k][2]] + body[btoks[e][3]:]
                else:
                    rest_sections.append((sk, sa, sb))
            if not header:
                raise ExtractError('bad-template', '%s: region needs @header' % where)
            log.append(('R18', 'arm `%s` #%d of fn %s lifted into `%s`' % (opts['arm'], armn, name, norm_ws(header)[:120])))
            text = header + ' ' + body
            sections = rest_sections
            start_line, end_line = sf.line_of(it.start + ftoks[ob][2]), sf.line_of(it.start + ftoks[cb][3])
            kind_eff = 'fn'
    else:
        it = sf.find(container, kind, name, nth)
        raw = sf.text[it.start:it.end]
        sha = hashlib.sha256(raw.encode()).hexdigest()
        text = strip_comments(raw)
        start_line, end_line = sf.line_of(it.start), sf.line_of(it.end)
        kind_eff = kind
    rules = list(unit_rules)
    if 'rules' in opts:
        rules = parse_rules(opts['rules']) + rules   # per-extract rules run first
    skip = set(opts.get('skip', '').split(',')) if 'skip' in opts else set()
    for rid, args in rules:
        if rid in skip:
            continue
        args = dict(args)
        args['_repo'] = repo_root
        text = RULES[rid](text, args, log)
    if kind_eff == 'fn':
        text = splice(text, sections, where)
    elif sections:
        raise ExtractError('bad-template', '%s: sections on a non-fn item' % where)
    contract = norm_ws(strip_comments('\n'.join(b for k, a, b in sections_all if k == 'sig')))
    meta = {
        'contract': contract[:400],
        'item': '%s | %s | %s %s' % (rel, container.strip(), kind, name),
        'name': name, 'kind': kind, 'container': container.strip(), 'file': rel,
        'lines': [start_line, end_line],
        'sha256': sha, 'attrs': it.attrs, 'rules': ['%s: %s' % r for r in log],
    }
    return text, meta


def find_proved_contract(verif_root, unit, rel, container, kind, name, mine, ret):
    """name of a unit (other than `unit`) whose template extracts the same item with the same @sig and NO external_body"""
    udir = os.path.join(verif_root, 'units')
    for u in sorted(os.listdir(udir)):
        if u == unit:
            continue
        tp = os.path.join(udir, u, 'unit.rs')
        if not os.path.isfile(tp):
            continue
        t = open(tp, encoding='utf-8').read()

        def inc(m):
            b = m.group(1).strip()
            if b.startswith('include '):
                try:
                    return open(os.path.join(verif_root, b[len('include '):].strip()), encoding='utf-8').read()
                except OSError:
                    return ''
            return m.group(0)
        for _ in range(3):
            t = DIRECTIVE.sub(inc, t)
        for m in DIRECTIVE.finditer(t):
            body = m.group(1)
            first, _, rest = body.strip('\n').partition('\n')
            first = first.strip()
            if not first.startswith('extract '):
                continue
            parts = [p.strip() for p in first[len('extract '):].split('|')]
            if len(parts) < 3 or parts[0] != rel or norm_tokens(parts[1]) != norm_tokens(container):
                continue
            kn = parts[2].split(None, 1)
            if kn[0] != kind or (kn[1].strip() if len(kn) > 1 else '') != name:
                continue
            if t[:m.start()].rstrip().endswith('#[verifier::external_body]'):
                continue
            secs = parse_sections(rest, u)
            theirs = norm_ws(strip_comments('\n'.join(b for k, a, b in secs if k == 'sig')))
            if theirs == mine and [a for k, a, b in secs if k == 'ret'] == ret:
                return u
    return None


def assemble(verif_root, repo_root, unit, out_path):
    """returns meta dict; writes the assembled file"""
    unit_dir = os.path.join(verif_root, 'units', unit)
    tpl_path = os.path.join(unit_dir, 'unit.rs')
    try:
        tpl = open(tpl_path, encoding='utf-8').read()
    except OSError as e:
        raise ExtractError('bad-template', str(e))
    unit_rules = []
    extracts = []
    out = []
    pos = 0
    # first pass: includes (textual)
    def do_includes(s, depth=0):
        def r(m):
            body = m.group(1).strip()
            if body.startswith('include '):
                p = os.path.join(verif_root, body[len('include '):].strip())
                return do_includes(open(p, encoding='utf-8').read(), depth + 1)
            return m.group(0)
        return DIRECTIVE.sub(r, s)
    tpl = do_includes(tpl)
    for m in DIRECTIVE.finditer(tpl):
        out.append(tpl[pos:m.start()])
        pos = m.end()
        body = m.group(1)
        first, _, rest = body.strip('\n').partition('\n')
        first = first.strip()
        if first.startswith('rules '):
            unit_rules = unit_rules + parse_rules(first[len('rules '):] + ' ' + ' '.join(l.strip() for l in rest.split('\n')))
            continue
        if first.startswith('extract '):
            parts = [p.strip() for p in first[len('extract '):].split('|')]
            if len(parts) < 3:
                raise ExtractError('bad-template', 'extract needs  file | container | kind name : %r' % first)
            rel, container, kn = parts[0], parts[1], parts[2]
            opts = {}
            for p in parts[3:]:
                if '=' in p:
                    k, v = p.split('=', 1)
                    opts[k.strip()] = v.strip()
            kn = kn.split(None, 1)
            kind = kn[0]
            name = kn[1].strip() if len(kn) > 1 else ''
            where = '%s::%s' % (unit, name)
            sections = parse_sections(rest, where)
            try:
                text, meta = extract_item(repo_root, rel, container, kind, name, opts, unit_rules, sections, where)
            except ExtractError as e_:
                # a lifted statement region whose anchors are gone (the function was restructured): in lenient mode the region
                # alone is dropped - the rest of the unit still verifies - and the runner reports its label as undecided, so
                # that the witness search for that function can still run
                if not (LENIENT['on'] and kind == 'region' and e_.kind == 'anchor-lost'):
                    raise
                LENIENT['lost'].append((where, 'region dropped: ' + e_.msg[:120]))
                cur_line = ''.join(out).count('\n') + 1
                extracts.append({'label': opts.get('label', name), 'name': name, 'file': rel, 'lines': [0, 0], 'sha256': '', 'rules': [],
                                 'contract': '', 'dropped': e_.msg, 'out_lines': [cur_line, cur_line]})
                # an external_body attribute directly in front of the directive would now decorate the next item: not used for regions
                continue
            label = opts.get('label', name)
            meta['label'] = label
            # a function marked `#[verifier::external_body]` in the template is a STUB of an already proved callee:
            # its contract must be textually identical to the @sig of the unit that proves it (checked here)
            before = ''.join(out).rstrip()
            if before.endswith('#[verifier::external_body]'):
                mine = norm_ws(strip_comments('\n'.join(b for k, a, b in sections if k == 'sig')))
                ret = [a for k, a, b in sections if k == 'ret']
                prover = find_proved_contract(verif_root, unit, rel, container, kind, name, mine, ret)
                if prover is None:
                    raise ExtractError('bad-template', '%s: external_body stub of %s, but no other unit proves this function with an identical @sig contract' % (where, name))
                meta['stub_of'] = prover
                # only the contract of a stub is used (its text is cross-checked above); the body is never verified here, so it is
                # dropped: the unit then does not need scaffolding for whatever the callee's body mentions, and stays
                # assemblable when that body changes (its own unit decides it)
                tk_ = [t for t in lex(text) if t[0] not in ('ws', 'lcomment', 'bcomment')]
                if tk_ and tk_[-1][0] == 'punct' and tk_[-1][1] == '}':
                    # the body is the LAST top-level block (the spliced contract may contain braces of its own)
                    d_ = 0
                    q_ = len(tk_) - 1
                    while q_ >= 0:
                        if tk_[q_][0] == 'punct' and tk_[q_][1] == '}':
                            d_ += 1
                        elif tk_[q_][0] == 'punct' and tk_[q_][1] == '{':
                            d_ -= 1
                            if d_ == 0:
                                break
                        q_ -= 1
                    if q_ > 0:
                        text = text[:tk_[q_][2]] + '{ unimplemented!() }' + text[tk_[-1][3]:]
                        meta.setdefault('rules', []).append(['STUB', 'body of the external_body stub dropped (contract cross-checked against unit %s)' % prover])
            cur_line = ''.join(out).count('\n') + 1
            meta['out_lines'] = [cur_line, cur_line + text.count('\n')]
            extracts.append(meta)
            out.append(text)
            continue
        raise ExtractError('bad-template', 'unknown directive: %r' % first)
    out.append(tpl[pos:])
    final = ''.join(out)
    with open(out_path, 'w', encoding='utf-8') as f:
        f.write(final)
    trusted = scan_trusted(final)
    return {'unit': unit, 'file': out_path, 'extracts': extracts, 'trusted': trusted,
            'unit_rules': ['%s%s' % (r, ('(' + ', '.join('%s=%s' % kv for kv in a.items()) + ')') if a else '') for r, a in unit_rules]}


TRUST_PAT = re.compile(r'(assume_specification|external_body|\baxiom\s+fn\b|external_fn_specification|external_type_specification|\badmit\s*\(|\bassume\s*\(|verifier::truncate|verifier::external\b|uninterp\b|verifier::nonlinear|verifier::spinoff_prover)')


def ghost_lines(text):
    """set of 1-based line numbers of the assembled file that lie inside spliced proof hints"""
    res = set()
    depth = 0
    for i, l in enumerate(text.split('\n')):
        opens = l.count(GB)
        closes = l.count(GE)
        if depth > 0 or opens:
            res.add(i + 1)
        depth += opens - closes
    return res


def scan_trusted(text):
    """every trusted construct in the assembled file, with the item it decorates"""
    res = []
    clean = strip_comments(text)
    lines = clean.split('\n')
    for i, l in enumerate(lines):
        for m in TRUST_PAT.finditer(l):
            kind = re.sub(r'\s+', ' ', m.group(1).strip('( ').strip())
            # describe: next non-empty line containing fn/struct
            desc = l.strip()
            if kind.startswith('external_body') or kind.startswith('verifier::external') or ('fn ' not in desc and 'struct ' not in desc and '[' not in desc):
                for j in range(i + 1, min(i + 6, len(lines))):
                    if re.search(r'\b(fn|struct|enum|trait)\b', lines[j]):
                        desc = lines[j].strip()
                        break
            if kind in ('verifier::nonlinear', 'verifier::spinoff_prover'):
                continue
            res.append({'kind': kind, 'line': i + 1, 'what': norm_ws(desc)[:160]})
    return res


def main():
    import argparse
    ap = argparse.ArgumentParser()
    ap.add_argument('unit')
    ap.add_argument('--repo', default='/repo')
    ap.add_argument('--verif', default=os.path.dirname(os.path.dirname(os.path.abspath(__file__))))
    ap.add_argument('-o', '--out', required=True)
    ap.add_argument('--convert-anchors', action='store_true', help='rewrite text anchors of the unit template as structural anchors')
    a = ap.parse_args()
    try:
        meta = assemble(a.verif, a.repo, a.unit, a.out)
        if a.convert_anchors:
            tp = os.path.join(a.verif, 'units', a.unit, 'unit.rs')
            t = open(tp).read()
            n = 0
            for where, kind, nth, pat, ordn, sel in ANCHOR_REPORT:
                old = '@%s %d `%s`' % (kind, nth, pat)
                new = '@%s %d `%s`' % (kind, ordn, sel)
                fn = where.split('::')[-1]
                i = t.find('fn %s' % fn)
                j = t.find(old, i if i >= 0 else 0)
                if j < 0:
                    print('cannot find %r for %s' % (old, where), file=sys.stderr)
                    continue
                t = t[:j] + new + t[j + len(old):]
                n += 1
            open(tp, 'w').write(t)
            print('converted %d anchors' % n, file=sys.stderr)
    except ExtractError as e:
        print('EXTRACT-ERROR %s' % e, file=sys.stderr)
        sys.exit(2)
    json.dump(meta, sys.stdout, indent=1)


if __name__ == '__main__':
    main()
