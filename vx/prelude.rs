// vx/prelude.rs — trusted contracts for std items that Verus/vstd does not specify (DESIGN.md section 7, A2).
// Everything in this file is part of the trusted base and is listed verbatim in every evidence file
// (the assumption scanner finds `external_body` / `assume_specification` / `axiom`).
// Each helper's *body* is the original std call, so a compiled unit behaves like the real code.

/// std `slice::partition_point` (rule R2).  Contract = std's documented one: if the slice is partitioned
/// by the predicate (all `true` before all `false`), the result is the partition index.
/// `p` is the ghost spelling of the closure's predicate; the 2nd precondition ties the two together.
#[verifier::external_body]
pub fn vx_partition_point<T, F: Fn(&T) -> bool>(v: &Vec<T>, f: F, Ghost(p): Ghost<spec_fn(T) -> bool>) -> (r: usize)
    requires
        forall|i: int| 0 <= i < v.len() ==> call_requires(f, (&#[trigger] v[i],)),
        forall|e: &T, b: bool| #[trigger] call_ensures(f, (e,), b) ==> b == p(*e),
        forall|i: int, j: int| 0 <= i < j < v.len() && !p(#[trigger] v[i]) ==> !p(#[trigger] v[j]),
    ensures
        r <= v.len(),
        forall|i: int| 0 <= i < r ==> p(#[trigger] v[i]),
        forall|i: int| r <= i < v.len() ==> !p(#[trigger] v[i]),
{
    v.partition_point(f)
}

/// std `Vec::drain(a..b)` with the result dropped (rule R3): removes `[a, b)`; panics unless `a <= b <= len`.
#[verifier::external_body]
pub fn vx_drain<T>(v: &mut Vec<T>, a: usize, b: usize)
    requires
        a <= b <= old(v).len(),
    ensures
        final(v)@ == old(v)@.subrange(0, a as int) + old(v)@.subrange(b as int, old(v).len() as int),
{
    v.drain(a..b);
}

/// std `mem::take` on a `Vec` (rule R4).
#[verifier::external_body]
pub fn vx_take<T>(v: &mut Vec<T>) -> (r: Vec<T>)
    ensures
        r@ == old(v)@,
        final(v)@ == Seq::<T>::empty(),
{
    core::mem::take(v)
}

/// `unreachable!()` / `panic!()` (rule R9): reaching it is a proof obligation (`requires false`).
#[verifier::external_body]
pub fn vx_unreachable() -> !
    requires
        false,
{
    unreachable!()
}

/// derived `Clone for Range<Idx>` is field-wise (A3).
pub assume_specification<Idx: Clone>[ <Range<Idx> as Clone>::clone ](r: &Range<Idx>) -> (res: Range<Idx>)
    ensures
        cloned(r.start, res.start),
        cloned(r.end, res.end),
;

/// std `Range<u32>::is_empty` (R8): `!(start < end)`.
pub uninterp spec fn vx_range_is_empty<Idx>(r: Range<Idx>) -> bool;

pub assume_specification<Idx>[ Range::<Idx>::is_empty ](r: &Range<Idx>) -> (res: bool)
    where Idx: core::cmp::PartialOrd + core::cmp::PartialOrd,
    ensures
        res == vx_range_is_empty(*r),
;

pub broadcast axiom fn axiom_range_u32_is_empty(r: Range<u32>)
    ensures
        #[trigger] vx_range_is_empty(r) == !(r.start < r.end),
;
