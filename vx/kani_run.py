#!/usr/bin/env python3
"""Kani runner: harness modules from /verif/kani/*.rs are attached to a scratch copy of /repo's working tree
(cfg(kani) only; /repo itself is never touched) and run with cargo kani.

Harness metadata lives in the harness file as line comments directly above each harness:
    // @harness name=<fn> kind=complete|bounded tiers=quick,thorough domain="..." bound="..." target="..." [timeout=SECONDS]
kind=complete  : loop-free or width-bounded code over full-domain symbolic inputs with unwinding assertions on:
                 a SUCCESS is a proof for the stated domain and is counted as a discharged obligation.
kind=bounded   : bounded stand-in; reported under bounded_checks, never counted as proved.
"""
import json
import os
import re
import shutil
import subprocess
import sys
import tempfile
import time

HERE = os.path.dirname(os.path.abspath(__file__))
VERIF = os.path.dirname(HERE)
CACHE = os.path.join(VERIF, '.cache')

META = re.compile(r'^\s*//\s*@harness\s+(.*)$')


def parse_meta(path):
    hs = []
    for line in open(path, encoding='utf-8'):
        m = META.match(line)
        if not m:
            continue
        d = {}
        for kv in re.finditer(r'(\w+)=("([^"]*)"|\S+)', m.group(1)):
            d[kv.group(1)] = kv.group(3) if kv.group(3) is not None else kv.group(2)
        d['tiers'] = d.get('tiers', 'quick,thorough').split(',')
        d['file'] = os.path.basename(path)
        hs.append(d)
    return hs


def make_scratch(repo):
    d = tempfile.mkdtemp(prefix='vx-kani-', dir='/tmp')
    for name in ('Cargo.toml', 'Cargo.lock'):
        shutil.copy(os.path.join(repo, name), os.path.join(d, name))
    for member in ('yrs', 'yffi', 'ywasm'):
        src = os.path.join(repo, member)
        if os.path.isdir(src):
            shutil.copytree(src, os.path.join(d, member), ignore=shutil.ignore_patterns('target', 'node_modules', 'pkg'))
    os.makedirs(os.path.join(d, '.cargo'), exist_ok=True)
    with open(os.path.join(d, '.cargo', 'config.toml'), 'w') as f:
        f.write('[net]\noffline = true\n')
    return d


ATTACH = re.compile(r'^\s*//\s*@attach\s+(\S+)\s+as\s+(\w+)')


def attach(scratch, files):
    """each harness file becomes a cfg(kani) child module of lib.rs, or of the file named by its
    `// @attach <relpath> as <modname>` line (so that private items of that module are reachable)"""
    for i, p in enumerate(files):
        target, name = 'yrs/src/lib.rs', 'vx_kani_%d' % i
        for line in open(p, encoding='utf-8'):
            m = ATTACH.match(line)
            if m:
                target, name = m.group(1), m.group(2)
                break
        tp = os.path.join(scratch, target)
        t = open(tp, encoding='utf-8').read()
        vis = 'pub(crate) ' if name.startswith('vx_kani_enc') else ''
        t += '\n#[cfg(kani)]\n#[path = "%s"]\n%smod %s;\n' % (p, vis, name)
        open(tp, 'w', encoding='utf-8').write(t)


def split_blocks(out):
    """per-harness output blocks; handles both sequential output and the `Thread N:` prefixes of -j runs"""
    blocks = {}
    cur = {}        # thread id -> harness
    active = None   # thread whose block we are in
    for line in out.split('\n'):
        m = re.match(r'^(?:Thread (\d+): )?Checking harness (\S+?)\.\.\.', line)
        if m:
            t = m.group(1) or '-'
            name = m.group(2).split('::')[-1]
            cur[t] = name
            blocks.setdefault(name, [])
            active = t if m.group(1) is None else None
            continue
        m = re.match(r'^Thread (\d+):\s*$', line)
        if m:
            active = m.group(1)
            continue
        if line.startswith('Manual Harness Summary') or line.startswith('Complete - '):
            active = None
        if active is not None and active in cur:
            blocks[cur[active]].append(line)
    return blocks


def run_group(group, tier, repo='/repo', only=None, _retry=False):
    """group: {"files": ["kani/x.rs", ...], "jobs": 8}"""
    t0 = time.time()
    files = [os.path.join(VERIF, f) for f in group['files']]
    metas = []
    for f in files:
        metas += parse_meta(f)
    pref = group.get('select')
    sel = [m for m in metas if tier in m['tiers'] and (only is None or m['name'] in only)
           and (not pref or any(m['name'].startswith(x) for x in pref))]
    res = {'harnesses': [], 'undecided': [], 'wall_s': 0}
    if not sel:
        return res
    scratch = make_scratch(repo)
    try:
        attach(scratch, files)
        env = dict(os.environ)
        env['CARGO_NET_OFFLINE'] = 'true'
        env['CARGO_TARGET_DIR'] = os.path.join(CACHE, 'kani-target')
        os.makedirs(CACHE, exist_ok=True)
        # harnesses are grouped by timeout so one slow harness cannot starve the rest
        budget = max(int(m.get('timeout', 180)) for m in sel)
        cmd = ['cargo', 'kani', '-p', 'yrs', '-Z', 'function-contracts', '-Z', 'stubbing', '-Z', 'unstable-options',
               '--harness-timeout', '%ds' % budget, '--output-format', 'terse', '-j', str(group.get('jobs', 8))]
        for m in sel:
            cmd += ['--harness', m['name']]
        # the Kani target directory is shared (incremental builds): two runs at once (two properties, or a scratch run next to
        # a /repo run) would overwrite each other's goto binaries while CBMC reads them.  One Kani run at a time.
        import fcntl
        lockf = open(os.path.join(CACHE, 'kani.lock'), 'w')
        fcntl.flock(lockf, fcntl.LOCK_EX)
        # cargo decides freshness by comparing source mtimes with the previous build in the shared target directory, and the
        # package hash does not depend on the scratch path: a scratch copy prepared BEFORE the lock was taken (or one whose
        # files carry old mtimes) would silently reuse the artifacts of another tree.  Force a rebuild of the crate under test.
        import glob
        for bd in glob.glob(os.path.join(env['CARGO_TARGET_DIR'], 'kani', '*', 'debug', 'build', 'yrs')):
            shutil.rmtree(bd, ignore_errors=True)
        now = time.time()
        for root, _dirs, fns in os.walk(os.path.join(scratch, 'yrs', 'src')):
            for fn in fns:
                os.utime(os.path.join(root, fn), (now, now))
        try:
            p = subprocess.run(cmd, cwd=scratch, env=env, stdout=subprocess.PIPE, stderr=subprocess.STDOUT, text=True,
                               timeout=budget * max(1, (len(sel) + 7) // 8) + 600)
            out = p.stdout
        except subprocess.TimeoutExpired as e:
            out = (e.stdout or b'').decode('utf-8', 'replace') if isinstance(e.stdout, bytes) else (e.stdout or '')
            res['undecided'].append('cargo kani timed out')
            subprocess.run(['pkill', '-x', 'cbmc'])
        os.makedirs(os.path.join(VERIF, '.work'), exist_ok=True)
        open(os.path.join(VERIF, '.work', 'kani-%s.log' % tier), 'w').write(out)
        if 'error: could not compile' in out or 'error[E' in out:
            res['undecided'].append('harness crate does not compile under kani: ' + ' | '.join(l for l in out.split('\n') if l.startswith('error'))[:600])
        blocks = split_blocks(out)
        for m in sel:
            b = blocks.get(m['name'])
            h = {'name': m['name'], 'complete': m.get('kind') == 'complete', 'bound': m.get('bound', ''), 'domain': m.get('domain', ''),
                 'target': m.get('target', ''), 'status': 'NO-RESULT', 'seconds': None, 'checks': None}
            if b:
                txt = '\n'.join(b)
                if 'VERIFICATION:- SUCCESSFUL' in txt:
                    h['status'] = 'SUCCESS'
                elif re.search(r'TIMEOUT|timed out|CBMC timed out', txt, re.I):
                    h['status'] = 'TIMEOUT'
                elif 'VERIFICATION:- FAILED' in txt:
                    h['status'] = 'FAILED'
                    fl = [l.strip() for l in b if l.startswith('Failed Checks:')]
                    if not fl or re.search(r'CBMC failed with status|CBMC crashed|out of memory|killed', txt, re.I):
                        # CBMC itself died (resources, unreadable goto binary): no check of the harness was refuted
                        h['status'] = 'TOOL-ERROR'
                    h['failed_check'] = ' ; '.join(fl)[:600]
                    h['output_tail'] = '\n'.join(b[-40:])[:4000]
                    # unwinding assertion failures mean the bound is too small, not that the code is wrong
                    if fl and all('unwinding assertion' in l for l in fl):
                        h['status'] = 'UNWIND-BOUND-TOO-SMALL'
                mt = re.search(r'Verification Time: ([0-9.]+)s', txt)
                if mt:
                    h['seconds'] = float(mt.group(1))
                mc = re.search(r'SUMMARY:\s*\n\s*\*\* (\d+) of (\d+) failed', txt)
                if mc:
                    h['checks'] = int(mc.group(2))
            res['harnesses'].append(h)
        # concrete playback for failures
        for h in res['harnesses']:
            if h['status'] == 'FAILED':
                cmd2 = ['cargo', 'kani', '-p', 'yrs', '-Z', 'function-contracts', '-Z', 'stubbing', '-Z', 'concrete-playback',
                        '--concrete-playback=print', '--harness', h['name']]
                try:
                    p2 = subprocess.run(cmd2, cwd=scratch, env=env, stdout=subprocess.PIPE, stderr=subprocess.STDOUT, text=True, timeout=900)
                    vals = re.findall(r'//\s*([-0-9a-zA-Z_.]+)\s*\n\s*vec!\[([0-9, ]*)\]', p2.stdout)
                    if vals:
                        h['concrete'] = {'kind': 'kani-playback', 'harness': h['name'], 'file': [m2['file'] for m2 in metas if m2['name'] == h['name']][0],
                                         'values': [{'value': v, 'bytes': [int(x) for x in bs.split(',') if x.strip()]} for v, bs in vals]}
                except subprocess.TimeoutExpired:
                    pass
    finally:
        try:
            lockf.close()      # releases the flock
        except NameError:
            pass
        shutil.rmtree(scratch, ignore_errors=True)
    # a harness on which CBMC died or produced no result is run once more on its own (resource contention)
    again = [h['name'] for h in res['harnesses'] if h['status'] in ('TOOL-ERROR', 'NO-RESULT')]
    if again and not _retry and not res['undecided']:
        r2 = run_group(dict(group, jobs=min(4, len(again))), tier, repo, only=again, _retry=True)
        by = {h['name']: h for h in r2['harnesses']}
        res['harnesses'] = [by.get(h['name'], h) for h in res['harnesses']]
        res['undecided'] += r2['undecided']
    res['wall_s'] = time.time() - t0
    return res


def main():
    import argparse
    ap = argparse.ArgumentParser()
    ap.add_argument('files', nargs='+')
    ap.add_argument('--tier', default='quick')
    ap.add_argument('--repo', default='/repo')
    ap.add_argument('--only', nargs='*')
    a = ap.parse_args()
    r = run_group({'files': a.files}, a.tier, a.repo, only=a.only)
    for h in r['harnesses']:
        print('%-40s %-10s %6ss  %s  %s' % (h['name'], h['status'], h['seconds'], 'complete' if h['complete'] else 'BOUNDED', h.get('failed_check', '')))
        if h.get('concrete'):
            print('    concrete:', json.dumps(h['concrete']['values']))
    for u in r['undecided']:
        print('UNDECIDED', u)
    print('wall %.1fs' % r['wall_s'])


if __name__ == '__main__':
    main()
