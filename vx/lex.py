"""Minimal Rust lexer: enough to brace-match, strip comments/attributes and find items.

Tokens are (kind, text, start, end) with kind in
  ws, lcomment, bcomment, str, char, life, num, id, punct
Offsets index into the original text so spans can be sliced verbatim.
"""
import re

ID_START = re.compile(r'[A-Za-z_]')
ID_REST = re.compile(r'[A-Za-z0-9_]*')
NUM = re.compile(r'[0-9][0-9A-Za-z_]*(\.[0-9][0-9A-Za-z_]*)?')


class LexError(Exception):
    pass


def lex(s):
    toks = []
    i = 0
    n = len(s)
    while i < n:
        c = s[i]
        if c.isspace():
            j = i + 1
            while j < n and s[j].isspace():
                j += 1
            toks.append(('ws', s[i:j], i, j))
            i = j
            continue
        if s.startswith('//', i):
            j = s.find('\n', i)
            if j < 0:
                j = n
            toks.append(('lcomment', s[i:j], i, j))
            i = j
            continue
        if s.startswith('/*', i):
            depth = 1
            j = i + 2
            while j < n and depth > 0:
                if s.startswith('/*', j):
                    depth += 1
                    j += 2
                elif s.startswith('*/', j):
                    depth -= 1
                    j += 2
                else:
                    j += 1
            if depth:
                raise LexError('unterminated block comment at %d' % i)
            toks.append(('bcomment', s[i:j], i, j))
            i = j
            continue
        # raw strings / byte strings
        m = re.compile(r'(b?r)(#*)"').match(s, i)
        if m:
            hashes = m.group(2)
            close = '"' + hashes
            j = s.find(close, m.end())
            if j < 0:
                raise LexError('unterminated raw string at %d' % i)
            j += len(close)
            toks.append(('str', s[i:j], i, j))
            i = j
            continue
        if c == '"' or (c == 'b' and i + 1 < n and s[i + 1] == '"'):
            j = i + (2 if c == 'b' else 1)
            while j < n and s[j] != '"':
                if s[j] == '\\':
                    j += 2
                else:
                    j += 1
            if j >= n:
                raise LexError('unterminated string at %d' % i)
            j += 1
            toks.append(('str', s[i:j], i, j))
            i = j
            continue
        if c == "'" or (c == 'b' and i + 1 < n and s[i + 1] == "'"):
            k = i + (1 if c == 'b' else 0)
            # char literal or lifetime
            if k + 1 < n and s[k + 1] == '\\':
                j = k + 2
                while j < n and s[j] != "'":
                    j += 1
                j += 1
                toks.append(('char', s[i:j], i, j))
                i = j
                continue
            if k + 2 < n and s[k + 2] == "'":
                j = k + 3
                toks.append(('char', s[i:j], i, j))
                i = j
                continue
            # multi-byte char literal e.g. 'é'
            m2 = re.compile(r"'[^'\\\n]'").match(s, k)
            if m2:
                j = m2.end()
                toks.append(('char', s[i:j], i, j))
                i = j
                continue
            # lifetime
            if c == "'":
                j = i + 1
                m3 = ID_REST.match(s, j)
                j = m3.end()
                toks.append(('life', s[i:j], i, j))
                i = j
                continue
        if ID_START.match(c):
            m = ID_REST.match(s, i)
            j = m.end()
            toks.append(('id', s[i:j], i, j))
            i = j
            continue
        if c.isdigit():
            m = NUM.match(s, i)
            j = m.end()
            # don't swallow `0..5` as float: NUM requires digit after '.'
            toks.append(('num', s[i:j], i, j))
            i = j
            continue
        toks.append(('punct', c, i, i + 1))
        i += 1
    return toks


OPEN = {'(': ')', '[': ']', '{': '}'}
CLOSE = {')': '(', ']': '[', '}': '{'}


def sig(toks):
    """significant tokens (no whitespace/comments) with their index in toks"""
    return [(k, t) for k, t in enumerate(toks) if t[0] not in ('ws', 'lcomment', 'bcomment')]


def match_close(toks, k):
    """toks[k] is an opening bracket; return index of its matching closer"""
    depth = 0
    for j in range(k, len(toks)):
        t = toks[j]
        if t[0] == 'punct':
            if t[1] in OPEN:
                depth += 1
            elif t[1] in CLOSE:
                depth -= 1
                if depth == 0:
                    return j
    raise LexError('unbalanced bracket at offset %d' % toks[k][2])


def strip_comments(text):
    out = []
    for t in lex(text):
        if t[0] in ('lcomment', 'bcomment'):
            # keep newlines of block comments so line structure survives
            out.append('\n' * t[1].count('\n'))
        else:
            out.append(t[1])
    return ''.join(out)
